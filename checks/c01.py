"""C01 — values written at construction are read back exactly."""

import math

import numpy as np
from hypothesis import strategies as st

from vlib.core import Outcome, fail, sut, is_raised, Finding
from vlib import typegen as tg
from vlib import mat
from vlib import placement as pl

ID = "C01"
LEVEL = "exploration"
RULE = (
    "case = generated type expression (grammar of the property: 10 scalar kinds, String, Struct, Array 1-3 dims "
    "static/dynamic any axis order, Ref, UnionRef, nested) x generated in-range value x input form chosen per node "
    "(python data / kwargs, numpy scalar, typed ndarray C/F/strided/other exact dtype, object ndarray, xobject of the "
    "same class in the same or another buffer, String capacity, array dimensions) x placement (default/fresh/OpenMP "
    "context, no buffer / BufferNumpy / BufferByteArray, capacity incl. 0 and exact, default alignment 1..64, grow "
    "step, allocate/free pre-history on poisoned memory, default/aligned/packed/explicit offset). Oracle: every "
    "field/item/reference read through the public API equals the model value (bit-exact floats), to_nplike/to_nparray "
    "of every scalar array equal the model. Non-trivial = type has a compound below the root or the placement is not "
    "'fresh buffer at default offset'; distinct = distinct case JSON."
)
ASSUMPTIONS = [
    "values are in range for their kind; strings contain no NUL and no surrogates",
    "xobject inputs are instances of the very class object of the field/item (the library documents 'an xobject of the correct type')",
    "a zero extent followed by further axes is passed as ndarray (a nested list cannot express it)",
    "search bounds: <=16 type nodes, depth<=5, extents<=4, <=256 elements per object (thorough)",
]


def budget(tier):
    return {"examples": 1200 if tier == "quick" else 10000}


def essential_labels(tier):
    return [
        "non_C_order",
        "array_of_dynamic_items",
        "nd_array_of_dynamic_items",
        "struct_2plus_dynamic_fields",
        "has_ref",
        "has_unionref",
        "ref_inside_array",
        "form:ndarray_C",
        "form:array_list",
        "form:string_capacity",
        "form:field_omitted",
        "place:prehistory",
        "place:explicit_offset",
    ]


def special_values(draw, spec, cfg, parent="root"):
    """like tg values but may use String capacity and array dimension forms.

    The dimension form is generated where the library dispatches it: at the
    root and for struct fields (tuples are unpacked there); for array items and
    reference targets only with exactly one dynamic dimension (a bare int)."""
    cfg = tg.cfg_for(spec, cfg)
    k = spec["k"]
    if k == "string":
        if draw(st.integers(0, 5)) == 0:
            return {"$cap": draw(st.sampled_from([255, 256, 257, 300]) if cfg.is_big and draw(st.integers(0, 1)) else st.integers(1, 24))}
        return draw(tg.texts(cfg))
    if k == "scalar":
        return draw(tg.scalar_values(spec["t"]))
    if k == "struct":
        out = {}
        for fn, ft in spec["fields"]:
            if ft["k"] == "ref" and "default" in ft and draw(st.integers(0, 1)) == 0:
                out[fn] = {"$omit": 1}  # not supplied: a referent of its own holding the declared default
            elif ft["k"] == "scalar" and draw(st.integers(0, 7)) == 0:
                out[fn] = {"$omit": 1}  # not supplied: reads back as the default 0, also on memory that was used before
            else:
                out[fn] = special_values(draw, ft, cfg, "struct")
        return out
    if k == "array":
        if not tg.is_dynamic(spec["item"]) and draw(st.integers(0, 7)) == 0:
            ndyn = sum(1 for d in spec["shape"] if d is None)
            if parent in ("root", "struct") or ndyn == 1:
                return {"$dims": tg.array_shape(draw, spec, cfg) if spec.get("huge") else [draw(tg.dyn_extents(cfg)) for _ in range(ndyn)]}
        shape = tg.array_shape(draw, spec, cfg)
        n = math.prod(shape)
        return {"shape": shape, "flat": tg.pooled(draw, n, lambda: special_values(draw, spec["item"], cfg, "array"))}
    if k == "ref":
        if draw(st.integers(0, 3)) == 0:
            return None
        return special_values(draw, spec["to"], cfg, "ref")
    if k == "unionref":
        if draw(st.integers(0, 3)) == 0:
            return None
        i = draw(st.integers(0, len(spec["members"]) - 1))
        return [i, special_values(draw, spec["members"][i], cfg, "ref")]
    raise ValueError(k)


@st.composite
def cases(draw, tier, huge=False):
    cfg = tg.Cfg(tier, big_weight=8, allow_huge=huge)
    spec = draw(tg.type_specs(cfg))
    value = special_values(draw, spec, cfg)
    forms = draw(st.lists(st.integers(0, 11), max_size=12))
    p = draw(pl.placements())
    # xobject-form inputs live in a second buffer of the same context, or (one case in three) of another context
    return {"type": spec, "value": value, "forms": forms, "placement": p, "xsrc": draw(st.sampled_from(["same", "same", "other"]))}


def strategy(tier):
    return cases(tier, huge=True)


def strip_special(spec, value):
    """replace capacity / dims forms by plain values (used for the dry run sizes only)"""
    return value


def placement_kwargs(p, ctx, buf, size):
    kw = {}
    if buf is None:
        if p["ctx"] != "default":
            kw["_context"] = ctx
        return kw
    kw["_buffer"] = buf
    if p["offset"] in ("aligned", "packed"):
        kw["_offset"] = p["offset"]
    elif p["offset"] == "explicit":
        off = buf.allocate(size + p["slack"])
        kw["_offset"] = off + p["slack"]
    return kw


def build(case):
    """-> (node, obj or Raised, env, buf, tracer, labels)"""
    spec, value, p = case["type"], case["value"], case["placement"]
    node = mat.materialise(spec, via_hybrid=bool(case.get("via_hybrid")))
    ctx = pl.make_context(p)
    labels = set()
    if case.get("via_hybrid") and any(s_["k"] == "struct" for s_, _ in tg.subspecs(spec)):
        labels.add("struct_classes_declared_through_hybrid_classes")
    size = 0
    need_size = p["buf"] != "none" and (p["offset"] == "explicit" or p["cap"] in ("exact", "exact+8"))
    if need_size:
        probe = sut(mat.construct, node, value, mat.Forms(case["forms"]), mat.Env(None, ctx))
        if is_raised(probe):
            return node, probe, None, None, None, labels
        size = int(probe._size) if hasattr(probe, "_size") else 16
    r = sut(pl.make_buffer, p, ctx, size)
    if is_raised(r):  # allocate/free of the pre-history failed
        return node, r, None, None, None, labels
    buf, tr = r
    env = mat.Env(buf, ctx)
    env.foreign = case.get("xsrc") == "other"
    kw = placement_kwargs(p, ctx, buf, size)
    obj = sut(mat.construct, node, value, mat.Forms(case["forms"]), env, **kw)
    labels |= {"form:" + f for f in env.forms_used}
    if not is_raised(obj) and hasattr(obj, "_buffer"):
        try:
            sz = int(obj._size) if getattr(obj, "_size", None) is not None else int(type(obj)._size)
        except Exception:
            sz = 0
        for lim in (256, 4096, 65536):
            if sz > lim:
                labels.add(f"object_larger_than_{lim}_bytes")
    if buf is not None:
        labels.add("place:" + p["buf"])
        if p["pre"]:
            labels.add("place:prehistory")
        if p["offset"] == "explicit":
            labels.add("place:explicit_offset")
        if p["offset"] in ("aligned", "packed"):
            labels.add("place:" + p["offset"])
        if p["align"] > 1:
            labels.add("place:alignment_gt1")
        if p["cap"] in (0, "exact"):
            labels.add("place:cap_" + str(p["cap"]))
    else:
        labels.add("place:no_buffer")
    return node, obj, env, buf, tr, labels


def scalar_arrays(obj, node, expected, out, path=""):
    """collect (array object, node, expected model) for every reachable array of scalars"""
    k = node.spec["k"]
    if obj is None or expected is None:
        return
    if k == "struct":
        for (fn, _), kid in zip(node.spec["fields"], node.kids):
            scalar_arrays(getattr(obj, fn), kid, expected[fn], out, path + "." + fn)
    elif k == "array":
        if node.spec["item"]["k"] == "scalar":
            out.append((obj, node, expected, path))
        elif node.spec["item"]["k"] in ("struct", "array", "ref", "unionref"):
            one_d = len(expected["shape"]) == 1
            for idx, ev in zip(tg.indices(expected["shape"]), expected["flat"]):
                scalar_arrays(obj[idx[0]] if one_d else obj[idx], node.kids[0], ev, out, path + "[]")
    elif k == "ref":
        scalar_arrays(obj, node.kids[0], expected, out, path + "->")
    elif k == "unionref":
        if isinstance(obj, node.cls):
            obj = obj.get()
        scalar_arrays(obj, node.kids[expected[0]], expected[1], out, path + "->")


def check_nplike(obj, node, expected):
    arrs = []
    nav = sut(scalar_arrays, obj, node, expected, arrs)
    if is_raised(nav):
        return fail("navigate_raised", f"reaching the arrays of scalars: {nav}", nav.key)
    for aobj, anode, ev, path in arrs:
        for meth in ("to_nplike", "to_nparray"):
            r = sut(getattr(aobj, meth))
            if is_raised(r):
                return fail(meth + "_raised", f"{path}: {r}", r.key + "|order=" + _order_class(anode.spec))
            if list(r.shape) != list(ev["shape"]):
                return fail(meth + "_shape", f"{path}: {r.shape} vs {ev['shape']}", _order_class(anode.spec))
            for idx, e in zip(tg.indices(ev["shape"]), ev["flat"]):
                d = tg.first_diff(anode.spec["item"], e, mat.pyscalar(anode.spec["item"], r[idx]), f"{path}{list(idx)}")
                if d:
                    return fail(meth + "_value", d, _order_class(anode.spec))
    return None


def _order_class(spec):
    nd = len(spec["shape"])
    if list(spec["order"]) == list(range(nd)):
        return "C"
    if nd == 3 and tuple(spec["order"]) in ((1, 2, 0), (2, 0, 1)):
        return "3cycle"
    return "perm"


def diff_key(d):
    """coarse class of a value difference (root causes, not paths, are counted)"""
    msg = d.split(": ", 1)[1] if ": " in d else d
    for tok, key in (("shape expected", "shape"), ("length expected", "length"), ("expected null", "nullness"),
                     ("expected non-null", "nullness"), ("member expected", "member"), ("missing", "missing"),
                     ("expected '", "string"), ('expected "', "string")):
        if msg.startswith(tok):
            return key
    return "scalar"


def run_case(case):
    spec, value, p = case["type"], case["value"], case["placement"]
    tl = tg.type_labels(spec)
    node, obj, env, buf, tr, labels = build(case)
    labels |= tl
    nontrivial = (not any(lb.startswith("depth_0") for lb in tl)) or not pl.is_default(p)
    if is_raised(obj):
        return fail("construct_raised", f"{obj}", obj.key, labels)
    expected = mat.expected_value(spec, value)
    got = sut(mat.walk, obj, node)
    if is_raised(got):
        return fail("read_raised", f"{got}", got.key, labels)
    d = tg.first_diff(spec, expected, got)
    if d:
        return fail("value_mismatch", d, diff_key(d), labels)
    r = check_nplike(obj, node, expected)
    if r is not None:
        r.labels = sorted(labels)
        return r
    return Outcome(True, labels=sorted(labels), nontrivial=nontrivial)


# --------------------------------------------------------------------------
# exhaustive array layer (vlib/arraylayer.py)
# --------------------------------------------------------------------------
from vlib import arraylayer  # noqa: E402

EXHAUSTIVE_SCOPE = arraylayer.SCOPE


def exhaustive_jobs(tier):
    return arraylayer.jobs(tier)


def run_exhaustive_job(job):
    return arraylayer.run_job(run_case, job, extra=None)
