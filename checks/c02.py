"""C02 — generated C accessors address the same bytes as the Python view (compiled differential)."""

from hypothesis import strategies as st

from vlib.core import Outcome, fail, sut, is_raised
from vlib import typegen as tg
from vlib import mat, layout, cbuild
from vlib import placement as pl
from checks import c01

ID = "C02"
SHRINK_BUDGET = 40
LEVEL = "exploration"
FP_MODE_MATTERS = True  # values travel through compiled code: see vlib/main.py run_case_guarded
RULE = (
    "case = generated type expression x value x input forms x placement (object at offset != 0, other live objects, "
    "buffer grown after construction in a third of the cases). The accessor API of the type is generated and built "
    "through the library's own path (T._gen_kernels() + ctx.add_kernels(), cffi) and for EVERY access path of the "
    "type (enumerated independently from the type expression; a path the library does not emit is a violation) and "
    "EVERY in-range index tuple: <T>_get == Python element value; <T>_getp - address(obj) == Python element offset - "
    "obj._offset == address computed from raw bytes by the independent layout model; <T>_len == product of the "
    "runtime shape; <T>_typeid == member index Python reports (-1 for null); <T>_member == referent offset. Paths "
    "through null references are not called. Second engine, for reference-free types: an image of the object is built by "
    "the independent encoder, its header words are given values the Python writer never produces (stride words scaled by "
    "random factors, item-offset tables permuted) and the same compiled accessors are called on it: <T>_getp must equal "
    "the documented address expression evaluated over the header words as they are, <T>_get the value found there. Non-trivial = a called path has >= 2 parts of which one is an index or a "
    "reference; distinct = distinct case JSON."
)
ASSUMPTIONS = c01.ASSUMPTIONS + [
    "x86-64 host, gcc via cffi, -O0 in the quick tier (a tenth of thorough cases use the library's default -O3)",
    "sampling of types, values and offsets; the symbolic 'for all header words' reading of the statement is not proved",
]


def budget(tier):
    return {"examples": 100 if tier == "quick" else 1500}


def essential_labels(tier):
    return ["dynamic_item_array_not_at_offset_0", "nd_dynamic_strides_from_header", "ref_in_path", "union_called", "non_C_order", "after_growth", "three_cycle_order_dynamic_items", "synthetic:item_table_permuted", "synthetic:strides_scaled"]


@st.composite
def cases(draw, tier):
    cfg = tg.Cfg(tier, max_leaves=8 if tier == "quick" else 12, roots=("struct", "struct", "struct", "array", "array", "array", "unionref"))
    spec = draw(tg.type_specs(cfg))
    while spec["k"] == "string":
        spec = draw(tg.type_specs(cfg))
    if draw(st.integers(0, 7)) == 0:
        # by construction: a root array of dynamically sized items, 3 axes of extent >= 2, cyclic axis order - the one
        # class in which the constructor handle (index-space offsets) and the bytes (memory-order table) can disagree
        item = draw(st.sampled_from([{"k": "string"}, {"k": "struct", "name": "SC", "fields": [["a", {"k": "scalar", "t": "Int16"}], ["s", {"k": "string"}]]},
                                     {"k": "array", "name": None, "item": {"k": "scalar", "t": "Int32"}, "shape": [None], "order": [0]}]))
        shape = [draw(st.sampled_from([2, 3, None])) for _ in range(3)]
        spec = {"k": "array", "name": "AC", "item": item, "shape": shape, "order": list(draw(st.sampled_from([(1, 2, 0), (2, 0, 1)])))}
        value = {"shape": [d if d is not None else draw(st.integers(2, 3)) for d in shape], "flat": []}
        n = value["shape"][0] * value["shape"][1] * value["shape"][2]
        value["flat"] = [tg._draw_value(draw, item, cfg) for _ in range(n)]
    else:
        value = c01.special_values(draw, spec, cfg)
    p = draw(pl.placements())
    if p["ctx"] == "default":
        p["ctx"] = "fresh"
    return {
        "type": spec,
        "value": value,
        "forms": draw(st.lists(st.integers(0, 11), max_size=8)),
        "placement": p,
        "grow": draw(st.sampled_from([0, 0, 64])),
        "o3": draw(st.integers(0, 9)) == 0 and tier == "thorough",
        "hdr_seed": draw(st.integers(0, 2**31)),
    }


def strategy(tier):
    return cases(tier)


def run_case(case, with_setters=False):
    spec, value, p = case["type"], case["value"], case["placement"]
    labels = set(tg.type_labels(spec))
    node, obj, env, buf, tr, lb2 = c01.build(case)
    labels |= lb2
    if is_raised(obj):
        return fail("construct_raised", f"{obj}", obj.key, labels)
    ctx = obj._buffer.context
    ks = sut(cbuild.compile_api, node.cls, ctx, case.get("o3", False))
    if is_raised(ks):
        return fail("api_build_failed", f"{ks}", ks.key, labels)
    root = node.cls.__name__
    if case.get("grow"):
        # the accessors are used once BEFORE the storage is replaced (anything cached per kernel or per buffer at
        # that point must not survive the growth), then compared in full afterwards
        k0 = ctx.kernels[f"{root}_getp"]
        w = sut(lambda: cbuild.to_int(k0, k0(obj=obj)))
        if is_raised(w):
            return fail("getp_raised", f"{root}_getp before growth: {w}", w.key, labels)
        if w != cbuild.base_address(obj):
            return fail("getp_vs_python", f"{root}_getp before growth: {w - cbuild.base_address(obj)} bytes off", "root", labels)
        g = sut(obj._buffer.grow, case["grow"])
        if is_raised(g):
            return fail("grow_raised", f"{g}", g.key, labels)
        labels.add("after_growth")
    model = sut(mat.walk, obj, node)
    if is_raised(model):
        return fail("read_raised", f"{model}", model.key, labels)
    base = cbuild.base_address(obj)
    off0 = int(obj._offset)
    img = pl.snapshot(obj._buffer)
    nontrivial = False
    ncalls = 0
    for steps, last in cbuild.api_paths(spec):
        names = cbuild.kernel_names(root, steps, last)
        for act, nm in names.items():
            if nm not in ks:
                return fail("accessor_missing", f"{nm} ({act} for path {steps}) is not emitted; emitted: {sorted(ks)[:40]}", act, labels)
        insts = cbuild.instances(spec, model, steps)
        if any(s[0] == "d" for s in steps):
            labels.add("ref_in_path")
        for idxs, cpath, sub in insts:
            args = {"obj": obj}
            for i, v in enumerate(idxs):
                args[f"i{i}"] = v
            if len(steps) >= 2 and any(s[0] in ("i", "d") for s in steps):
                nontrivial = True
            # --- getp
            kern = ctx.kernels[names["getp"]]
            r = sut(lambda: cbuild.to_int(kern, kern(**args)))
            if is_raised(r):
                return fail("getp_raised", f"{names['getp']}{idxs}: {r}", r.key, labels)
            ncalls += 1
            pyoff = sut(cbuild.py_offset, obj, node, cpath)
            if is_raised(pyoff):
                return fail("python_offset_raised", f"{cpath}: {pyoff}", pyoff.key, labels)
            try:
                _, laddr = layout.locate(spec, img, off0, cbuild.layout_steps(cpath))
            except layout.LayoutError as e:
                return fail("layout_undecodable", str(e), e.clause, labels)
            if r - base != pyoff - off0:
                return fail("getp_vs_python", f"{names['getp']}{idxs}: C offset {r - base}, Python offset {pyoff - off0} (relative to the object)", _feature(spec, steps), labels)
            if laddr is not None and r - base != laddr - off0:
                return fail("getp_vs_layout", f"{names['getp']}{idxs}: C offset {r - base}, documented layout {laddr - off0}", _feature(spec, steps), labels)
            k = last["k"]
            # --- get
            if k == "scalar":
                kern = ctx.kernels[names["get"]]
                g = sut(lambda: kern(**args))
                if is_raised(g):
                    return fail("get_raised", f"{names['get']}{idxs}: {g}", g.key, labels)
                d = tg.first_diff(last, sub, mat.pyscalar(last, g))
                if d:
                    return fail("get_value", f"{names['get']}{idxs}: {d}", _feature(spec, steps), labels)
                ncalls += 1
            # --- len
            if k == "array":
                kern = ctx.kernels[names["len"]]
                g = sut(lambda: kern(**args))
                if is_raised(g):
                    return fail("len_raised", f"{names['len']}{idxs}: {g}", g.key, labels)
                exp = 1
                for dd in sub["shape"]:
                    exp *= dd
                pl_ = sut(lambda: int(len(mat.obj_get(obj, node, cpath)[0])))
                if int(g) != exp or (not is_raised(pl_) and pl_ != int(g)):
                    return fail("len_value", f"{names['len']}{idxs}: C {g}, model {exp}, Python len {pl_}", _feature(spec, steps), labels)
                ncalls += 1
                it = last
                if tg.is_dynamic(it["item"]) and (steps or off0):
                    labels.add("dynamic_item_array_not_at_offset_0")
                if len(it["shape"]) > 1 and any(x is None for x in it["shape"]):
                    labels.add("nd_dynamic_strides_from_header")
            # --- typeid / member
            if k == "unionref":
                labels.add("union_called")
                kern = ctx.kernels[names["typeid"]]
                g = sut(lambda: kern(**args))
                if is_raised(g):
                    return fail("typeid_raised", f"{names['typeid']}{idxs}: {g}", g.key, labels)
                exp = -1 if sub is None else sub[0]
                if int(g) != exp:
                    return fail("typeid_value", f"{names['typeid']}{idxs}: C {g}, Python member index {exp}", "", labels)
                if sub is not None:
                    kern = ctx.kernels[names["member"]]
                    g = sut(lambda: cbuild.to_int(kern, kern(**args)))
                    if is_raised(g):
                        return fail("member_raised", f"{names['member']}{idxs}: {g}", g.key, labels)
                    tgt = sut(lambda: mat.obj_get(obj, node, cpath + [["d"]])[0])
                    if is_raised(tgt):
                        return fail("python_member_raised", f"{cpath}: {tgt}", tgt.key, labels)
                    if g - base != int(tgt._offset) - off0:
                        return fail("member_address", f"{names['member']}{idxs}: C offset {g - base}, Python referent offset {int(tgt._offset) - off0}", "", labels)
                ncalls += 2
    labels.add(f"calls_{min(ncalls // 10 * 10, 100)}+")
    r = synthetic_headers(case, spec, model, node, ctx, ks, labels)
    if r is not None:
        return r
    if with_setters:
        return node, obj, model, ks, labels, nontrivial
    return Outcome(True, labels=sorted(labels), nontrivial=nontrivial)


def synthetic_headers(case, spec, model, node, ctx, ks, labels):
    """second engine: the compiled accessors on an image whose header words were given values the Python writer never
    produces (scaled strides, permuted item-offset tables); the address must be the documented expression over the
    header words AS THEY ARE.  Reference-free types only (the image is built by the independent encoder)."""
    import random

    import numpy as np

    if tg.has_refs(spec) or spec["k"] == "unionref":
        return None
    try:
        img = bytearray(layout.encode(spec, model))
    except Exception:  # value forms the encoder does not take (none expected for walked models)
        return None
    log = set()
    layout.perturb_headers(spec, img, 0, random.Random(case.get("hdr_seed", 0)), log)
    if not log:
        return None
    labels.update("synthetic:" + x for x in log)
    pad = 16
    store = np.zeros(len(img) + 2 * pad, dtype="int8")
    store[pad: pad + len(img)] = np.frombuffer(bytes(img), dtype="int8")
    base = int(store.ctypes.data) + pad
    mem = bytes(img)
    root = node.cls.__name__
    try:
        model2 = layout.decode(spec, mem, 0)  # the shapes as the perturbed image states them (index ranges per item)
    except layout.LayoutError:
        return None
    for steps, last in cbuild.api_paths(spec):
        names = cbuild.kernel_names(root, steps, last)
        for idxs, cpath, sub in cbuild.instances(spec, model2, steps):
            kern = ctx.kernels[names["getp"]]
            ffi = kern.ffi_interface
            try:
                _, want = layout.locate(spec, mem, 0, cbuild.layout_steps(cpath), header_strides=True)
            except layout.LayoutError:
                continue  # the perturbed words lead outside the image on this path: not called
            got = sut(lambda: int(ffi.cast("uintptr_t", kern.function(ffi.cast(root, base), *idxs))))
            if is_raised(got):
                return fail("getp_raised", f"synthetic image, {names['getp']}{idxs}: {got}", got.key, labels)
            if (got - base) % 2**64 != want % 2**64:
                return fail("getp_vs_layout_synthetic_headers", f"{names['getp']}{idxs} on an image with {sorted(log)}: C offset {got - base}, documented expression over the header words {want}", "+".join(sorted(log)) + "|" + _feature(spec, steps), labels)
            if last["k"] == "scalar" and "strides_scaled" not in log and 0 <= want <= len(mem) - tg.SCALAR_SIZE[last["t"]]:
                kg = ctx.kernels[names["get"]]
                g = sut(lambda: kg.function(ffi.cast(root, base), *idxs))
                if is_raised(g):
                    return fail("get_raised", f"synthetic image, {names['get']}{idxs}: {g}", g.key, labels)
                exp = layout.decode(last, mem, want)
                d = tg.first_diff(last, exp, mat.pyscalar(last, g))
                if d:
                    return fail("get_value_synthetic_headers", f"{names['get']}{idxs}: {d}", "+".join(sorted(log)), labels)
    return None


def _feature(spec, steps):
    """structural feature of the failing path (for root-cause signatures)"""
    sp = spec
    feats = []
    for i, st_ in enumerate(steps):
        if st_[0] == "f":
            sp = dict((a, b) for a, b in sp["fields"])[st_[1]]
        elif st_[0] == "i":
            f = "idx"
            if tg.is_dynamic(sp["item"]):
                f += "_dynitem"
            if len(sp["shape"]) > 1 and any(x is None for x in sp["shape"]):
                f += "_ndyn"
            if list(sp["order"]) != list(range(len(sp["shape"]))):
                f += "_perm"
            if i > 0:
                f += "_nested"
            feats.append(f)
            sp = sp["item"]
        else:
            feats.append("deref")
            sp = sp["to"] if sp["k"] == "ref" else sp
        if sp["k"] == "ref":
            pass
    if any("dynitem" in f and "nested" in f for f in feats):
        return "nested_array_of_dynamic_items"
    return "+".join(sorted(set(feats)))[:80]
