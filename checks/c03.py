"""C03 — an object never writes outside the bytes reserved for it."""

from hypothesis import strategies as st

from vlib.core import Outcome, fail, sut, is_raised, Finding
from vlib import typegen as tg
from vlib import mat, layout, assign
from vlib import placement as pl
from vlib import cbuild
from checks import c01

ID = "C03"
LEVEL = "exploration"
RULE = (
    "generated type expression x value x input forms x placement in which the target lands between two live neighbour "
    "regions (byte patterns) inside a poisoned, traced buffer (hole freed for it / explicit offset into the hole / end "
    "of buffer; BufferNumpy and BufferByteArray; alignment, grow step), followed by 0..6 fitting assignments (leaf, "
    "whole nested struct/array from python data or ndarray, reference rebinding to data or null, buffer growth; one assignment in three addresses items of arrays of dynamic items by negative index) "
    "through handles, views or a mix. Oracle on raw bytes: the bytes changed by construction lie inside regions "
    "handed out by allocate() during the constructor (the explicit extent for explicit offsets); the object's extent "
    "is one of them and its size equals _size, _get_size() and the size word; nested parts lie inside their parent, "
    "siblings are disjoint (independent layout model), reference targets lie in other allocated regions; each "
    "assignment changes only bytes inside the object's construction-time regions or regions allocated during that "
    "assignment - and an assignment TO A REFERENCE SLOT only the slot's own words and regions allocated during it (not the "
    "object referred to so far); neighbours keep their patterns. Non-trivial = object has a dynamic part or a reference and a live "
    "neighbour directly behind it; distinct = distinct case JSON."
)
ASSUMPTIONS = c01.ASSUMPTIONS + [
    "assignments are fitting (same structure, strings no longer than the one replaced); misfits are C11",
    "allocations are observed by wrapping allocate/free/_new_buffer on the buffer instance (new storage is poisoned)",
]


def budget(tier):
    return {"examples": 1000 if tier == "quick" else 8000}


def essential_labels(tier):
    return ["neighbour_distance_0", "mode:hole", "mode:explicit", "op:leaf", "op:compound_struct", "op:compound_array", "op:rebind_to_data", "has_ref", "array_of_dynamic_items"]


@st.composite
def cases(draw, tier):
    cfg = tg.Cfg(tier)
    spec = draw(tg.type_specs(cfg))
    value = c01.special_values(draw, spec, cfg)
    return {
        "type": spec,
        "value": value,
        "forms": draw(st.lists(st.integers(0, 11), max_size=12)),
        "place": {
            "buf": draw(st.sampled_from(["numpy", "numpy", "bytearray"])),
            "align": draw(st.sampled_from([1, 1, 8, 8, 2, 16, 64])),
            "grow_step": draw(st.one_of(st.none(), st.integers(1, 128))),
            "mode": draw(st.sampled_from(["hole", "hole", "explicit", "end"])),
            "na": draw(st.integers(1, 24)),
            "nb": draw(st.integers(1, 24)),
            "extra_cap": draw(st.sampled_from([0, 0, 8, 64, 1024])),
        },
        "ops": draw(st.lists(assign.op_specs, max_size=6)),
    }


def strategy(tier):
    return cases(tier)


def pattern(n, salt):
    return bytes(((salt * 31 + i * 7) % 200) + 33 for i in range(n))


def inside(pos, regions):
    for s, e in regions:
        if s <= pos < e:
            return True
    return False


def run_case(case):
    spec, value, pc = case["type"], case["value"], case["place"]
    labels = set(tg.type_labels(spec))
    labels.add("mode:" + pc["mode"])
    node = mat.materialise(spec)
    import xobjects as xo
    from xobjects.context_cpu import BufferNumpy, BufferByteArray

    ctx = xo.ContextCpu()
    # size of the object (dry run in a scratch buffer of the same context)
    probe = sut(mat.construct, node, value, mat.Forms(case["forms"]), mat.Env(None, ctx), _context=ctx)
    if is_raised(probe):
        return fail("construct_raised", f"dry run: {probe}", probe.key, labels)
    size = int(probe._size)
    cls = BufferNumpy if pc["buf"] == "numpy" else BufferByteArray
    al = pc["align"]
    cap = pc["na"] + size + pc["nb"] + 3 * al + pc["extra_cap"]
    buf = cls(capacity=cap, context=ctx, default_alignment=al, grow_step=pc["grow_step"])
    pl.poison_fill(buf)
    tr = pl.Tracer(buf)
    neigh = []
    a_off = buf.allocate(pc["na"])
    buf.update_from_buffer(a_off, pattern(pc["na"], 1))
    neigh.append((a_off, pc["na"], 1))
    kw = {"_buffer": buf}
    explicit = None
    if pc["mode"] in ("hole", "explicit"):
        hole = buf.allocate(size)
        b_off = buf.allocate(pc["nb"], align=False)
        buf.update_from_buffer(b_off, pattern(pc["nb"], 2))
        neigh.append((b_off, pc["nb"], 2))
        if b_off == hole + size:
            labels.add("neighbour_distance_0")
        if pc["mode"] == "hole":
            buf.free(hole, size)
            pl.poison_fill(buf, hole, hole + size)
        else:
            kw["_offset"] = hole
            explicit = (hole, hole + size)
    before = pl.snapshot(buf)
    mark = tr.mark()
    env = mat.Env(buf, ctx)
    obj = sut(mat.construct, node, value, mat.Forms(case["forms"]), env, **kw)
    if is_raised(obj):
        return fail("construct_raised", f"{obj}", obj.key, labels)
    after = pl.snapshot(buf)
    if len(after) > len(before):
        before = before + bytes([pl.POISON]) * (len(after) - len(before))
    allocated = [(o, o + s) for o, s in tr.allocated_since(mark)]
    if explicit:
        allocated.append(explicit)
    off = int(obj._offset)
    # --- clause 1: construction writes only into regions handed out during construction
    bad = [i for i in pl.diff_positions(before, after) if not inside(i, allocated)]
    if bad:
        return fail("construct_wrote_outside_allocations", f"bytes {bad[:8]} changed; regions handed out during construction: {allocated}; object at {off} size {size}", "", labels)
    # --- size clauses
    sizes = sut(lambda: (int(obj._size), int(obj._get_size()) if hasattr(obj, "_get_size") else int(obj._size)))
    if is_raised(sizes):
        return fail("size_raised", f"{sizes}", sizes.key, labels)
    try:
        lsize = layout.object_size(spec, after, off)
    except layout.LayoutError as e:
        return fail("undecodable", str(e), e.clause, labels)
    if not (sizes[0] == sizes[1] == lsize):
        return fail("size_disagreement", f"_size {sizes[0]}, _get_size() {sizes[1]}, size in bytes {lsize}", "", labels)
    if (off, off + lsize) not in allocated:
        if not any(s <= off and off + lsize <= e for s, e in allocated):
            return fail("extent_not_allocated", f"object extent [{off},{off + lsize}) is not inside a region handed out by allocate: {allocated}", "", labels)
        return fail("extent_differs_from_allocation", f"object extent [{off},{off + lsize}) vs regions handed out {allocated}", "", labels)
    # --- clause 2: nesting (independent layout model)
    probs = [p for p in layout.structure_problems(spec, after, off) if p[0] in ("part_outside_parent", "siblings_overlap", "out_of_image")]
    if probs:
        return fail("nesting", "; ".join(m for _, m in probs[:3]), probs[0][0], labels)
    try:
        ext = layout.extents(spec, after, off)
    except layout.LayoutError as e:
        return fail("undecodable", str(e), e.clause, labels)
    for path, s, e, k, parent in ext[1:]:
        if parent is None:  # reference target
            if s < off + lsize and off < e:
                return fail("reference_target_overlaps_holder", f"{path} [{s},{e}) vs object [{off},{off + lsize})", "", labels)
            if not any(rs <= s and e <= re for rs, re in allocated if (rs, re) != (off, off + lsize)):
                return fail("reference_target_not_allocated", f"{path} [{s},{e}) not inside a region handed out during construction {allocated}", "", labels)
    # --- clause 3: fitting assignments
    model = sut(mat.walk, obj, node)
    if is_raised(model):
        return fail("read_raised", f"{model}", model.key, labels)
    own = list(allocated)
    for op in case["ops"]:
        b0 = pl.snapshot(buf)
        m0 = tr.mark()
        r = assign.apply_op(op, obj, node, model, labels)
        if isinstance(r, tuple) and r[0] == "skip":
            continue
        if is_raised(r):
            return fail("assignment_raised", f"{op['kind']} via {op['via']}: {r}", f"{op['kind']}|{r.key}", labels)
        b1 = pl.snapshot(buf)
        if len(b1) > len(b0):
            b0 = b0 + bytes([pl.POISON]) * (len(b1) - len(b0))
        newly = [(o, o + s) for o, s in tr.allocated_since(m0)]
        allowed = own
        if op["kind"] in ("rebind", "null") and r[1]:
            # assigning to a reference slot: the slot's own words and the objects newly created for it - not the
            # object referred to so far (it may be shared, part of another object or held by the user)
            try:
                sspec, saddr = layout.locate(spec, b0, off, cbuild.layout_steps(r[1]))
            except layout.LayoutError as e:
                return fail("undecodable", str(e), e.clause, labels)
            if saddr is not None:
                allowed = [(saddr, saddr + (16 if sspec["k"] == "unionref" else 8))]
                labels.add("rebind_judged_against_slot_only")
        bad = [i for i in pl.diff_positions(b0, b1) if not inside(i, allowed) and not inside(i, newly)]
        if bad:
            return fail("assignment_wrote_outside", f"{op['kind']}: bytes {bad[:8]} changed; object regions {own}, newly allocated {newly}", op["kind"], labels)
        own += newly
    # neighbours intact (follows from the diffs; checked directly as well)
    for o, n, salt in neigh:
        if bytes(buf.to_bytearray(o, n)) != pattern(n, salt):
            return fail("neighbour_modified", f"neighbour at [{o},{o + n})", "", labels)
    nontrivial = (tg.is_dynamic(spec) or tg.has_refs(spec)) and "neighbour_distance_0" in labels
    return Outcome(True, labels=sorted(labels), nontrivial=nontrivial)
