"""C05 — object bytes follow the documented binary layout.

Oracle: vlib.layout (a decoder written from the documentation only) recovers
the written value from the raw bytes, and the structural clauses hold."""

from hypothesis import strategies as st
from vlib.core import Outcome, fail, sut, is_raised, HarnessError
from vlib import typegen as tg
from vlib import mat, layout
from vlib import placement as pl
from checks import c01

ID = "C05"
LEVEL = "exploration"
RULE = (
    "same case space as C01 (generated type expression x value x input forms x placement). Oracle: a decoder that "
    "shares no code with the library (vlib/layout.py, written from Architecture.md, types.rst and the statement) "
    "decodes the raw bytes at the object's offset to exactly the written value, following references inside the "
    "buffer image; structural clauses: every part starts on a slot boundary relative to its object, lies inside its "
    "parent, siblings are disjoint, dynamic sizes are slot multiples that cover exactly the parts, dynamic struct "
    "fields and dynamic array items are laid out contiguously in declaration / memory order, header strides equal "
    "the documented strides, strings are size-prefixed NUL-terminated NUL-padded UTF-8, null references are "
    "-2**63 (and member -1). Non-trivial = the type contains a dynamic array, a struct with >=2 dynamic fields or a "
    "reference; distinct = distinct case JSON."
)
ASSUMPTIONS = [
    "where types.rst ('offset from start of the buffer') and the statement ('relative to its own slot') differ, the statement governs",
    "a String built from a capacity keeps the documented size capacity+8 (not required to be a slot multiple); what follows it must still start on a slot",
    "padding bytes are unconstrained",
] + c01.ASSUMPTIONS


def budget(tier):
    return {"examples": 1000 if tier == "quick" else 8000}


@st.composite
def cases(draw, tier):
    c = draw(c01.cases(tier))
    # one case in five: every struct class is the struct generated for a HybridClass declared with the same fields
    c["via_hybrid"] = draw(st.integers(0, 4)) == 0
    return c


def strategy(tier):
    return cases(tier)


def essential_labels(tier):
    return ["non_C_order", "nd_array_of_dynamic_items", "struct_2plus_dynamic_fields", "has_ref", "has_unionref", "array_nd_dynamic_shape", "form:string_capacity"]


def _selftest(spec, value):
    if tg.has_refs(spec):
        return
    img = layout.encode(spec, value)
    back = layout.decode(spec, img, 0)
    d = tg.first_diff(spec, value, back)
    if d:
        raise HarnessError(f"layout model self-test failed: {d}")
    pr = layout.structure_problems(spec, img, 0)
    if pr:
        raise HarnessError(f"layout model self-test: encode() violates own structure clauses {pr[:2]}")


def run_case(case):
    spec, value, p = case["type"], case["value"], case["placement"]
    tl = tg.type_labels(spec)
    node, obj, env, buf, tr, labels = c01.build(case)
    labels |= tl
    nontrivial = bool(tl & {"array_dynamic_shape", "array_of_dynamic_items", "struct_2plus_dynamic_fields", "has_ref", "has_unionref"})
    if is_raised(obj):
        return fail("construct_raised", f"{obj}", obj.key, labels)
    expected = mat.expected_value(spec, value)
    if "$" not in str(value):
        _selftest(spec, expected)
    img = sut(lambda: bytes(obj._buffer.to_bytearray(0, obj._buffer.capacity)))
    if is_raised(img):
        return fail("snapshot_raised", f"{img}", img.key, labels)
    off = int(obj._offset)
    try:
        got = layout.decode(spec, img, off)
    except layout.LayoutError as e:
        return fail("undecodable", str(e), e.clause, labels)
    d = tg.first_diff(spec, expected, got)
    if d:
        return fail("decoded_value_differs", d, c01.diff_key(d), labels)
    probs = layout.structure_problems(spec, img, off)
    if probs:
        return fail("structure", "; ".join(m for _, m in probs[:3]), probs[0][0], labels)
    return Outcome(True, labels=sorted(labels), nontrivial=nontrivial)


# --------------------------------------------------------------------------
# exhaustive array layer (vlib/arraylayer.py)
# --------------------------------------------------------------------------
from vlib import arraylayer  # noqa: E402

EXHAUSTIVE_SCOPE = arraylayer.SCOPE


def exhaustive_jobs(tier):
    return arraylayer.jobs(tier)


def run_exhaustive_job(job):
    return arraylayer.run_job(run_case, job, extra=None)
