"""C06 — a view rebuilt from buffer and offset equals the constructed handle."""

from hypothesis import strategies as st

from vlib.core import Outcome, fail, sut, is_raised
from vlib import typegen as tg
from vlib import mat, assign
from vlib import placement as pl
from checks import c01

ID = "C06"
LEVEL = "exploration"
RULE = (
    "C01 case space plus a short list of fitting leaf writes, up to two whole-element assignments (nested struct / array or the root through _update, via handle, view or a mix) and an optional buffer growth. For the root and for every "
    "nested compound reached through fields, items and references, the handle chain (starting at the object the "
    "constructor returned) is compared with a view chain started from T._from_buffer(buffer, offset) and with views "
    "of views: equal value at every index (both equal to the model), equal _shape, _strides (as int tuples), _size "
    "and _get_size(), equal to_nplike()/to_nparray() of every array of scalars (asked at every stage, so an object that "
    "answered once is asked again later); a write through the view is seen through the handle and conversely; all of it again after the "
    "buffer has grown, and once more after writes made after the growth. Non-trivial = a compared compound at depth >= 1 is an array with dynamic shape, an array of "
    "dynamic items or a struct with >= 2 dynamic fields; distinct = distinct case JSON."
)
ASSUMPTIONS = c01.ASSUMPTIONS + ["writes are fitting: strings no longer (in bytes) than the string they replace"]


def budget(tier):
    return {"examples": 1000 if tier == "quick" else 8000}


def essential_labels(tier):
    return ["nd_array_of_dynamic_items", "non_C_order", "struct_2plus_dynamic_fields", "write_via_view", "write_via_handle", "grown", "write_after_growth", "whole_element_write"]


write_spec = st.fixed_dictionaries(
    {
        "li": st.integers(0, 1000),
        "int": st.integers(-(2**63), 2**64 - 1),
        "float": st.floats(width=32),
        "text": tg._text,
        "via": st.sampled_from(["view", "handle", "viewview"]),
    }
)


@st.composite
def cases(draw, tier):
    c = draw(c01.cases(tier))
    c["writes"] = draw(st.lists(write_spec, max_size=4))
    c["grow"] = draw(st.sampled_from([0, 0, 1, 8, 1000]))
    # whole-element assignments (nested struct / array, or the root through _update) through the handle, a view or a mix
    c["cwrites"] = draw(st.lists(assign.op_specs, max_size=2)) if draw(st.integers(0, 2)) == 0 else []
    return c


def strategy(tier):
    return cases(tier)


def fit_value(leafspec, w, current):
    """a value of the leaf's kind that fits where `current` is stored"""
    if leafspec["k"] == "string":
        room = len(current.encode("utf8"))
        t = w["text"]
        while len(t.encode("utf8")) > room:
            t = t[:-1]
        return t
    t = leafspec["t"]
    if t in tg.INT_RANGE:
        lo, hi = tg.INT_RANGE[t]
        return lo + (w["int"] - lo) % (hi - lo + 1)
    return w["float"]


def norm_ints(x):
    return tuple(int(v) for v in x)


def attrs(o, spec):
    out = {}
    if spec["k"] == "array":
        out["_shape"] = norm_ints(o._shape)
        out["_strides"] = norm_ints(o._strides)
    out["_size"] = int(o._size)
    out["_get_size"] = int(o._get_size())
    return out


def compare_chains(handle, view, node, expected, labels, stage):
    spec = node.spec
    hv = sut(mat.walk, handle, node)
    if is_raised(hv):
        return fail("handle_read_raised", f"{stage}: {hv}", hv.key)
    vv = sut(mat.walk, view, node)
    if is_raised(vv):
        return fail("view_read_raised", f"{stage}: {vv}", vv.key)
    d = tg.first_diff(spec, expected, hv)
    if d:
        return fail("handle_value", f"{stage}: {d}", c01.diff_key(d))
    d = tg.first_diff(spec, expected, vv)
    if d:
        return fail("view_value", f"{stage}: {d}", c01.diff_key(d))
    for path, cspec in mat.compound_paths(spec, expected):
        ho = sut(mat.obj_get, handle, node, path)
        vo = sut(mat.obj_get, view, node, path)
        if is_raised(ho) or is_raised(vo):
            r = ho if is_raised(ho) else vo
            return fail("navigate_raised", f"{stage} {path}: {r}", r.key)
        cnode = ho[1]
        ho, vo = ho[0], vo[0]
        if cspec["k"] == "array" and cspec["item"]["k"] == "scalar":
            # the bulk accessor is a read like any other: same values through the handle chain and the view chain
            # (asked at every stage, so an object that answered once is asked again after writes and growth)
            _, cval = mat.model_get(spec, expected, path)
            for o, nm in ((ho, "handle"), (vo, "view")):
                r = c01.check_nplike(o, cnode, cval)
                if r:
                    return fail(nm + "_" + r.clause, f"{stage} {path}: {r.detail}", r.sigkey)
        if spec["k"] == "unionref" and not path:
            continue
        a1 = sut(attrs, ho, cspec)
        a2 = sut(attrs, vo, cspec)
        a3 = sut(lambda: attrs(mat.view_of(vo), cspec))
        for a in (a1, a2, a3):
            if is_raised(a):
                return fail("attribute_raised", f"{stage} {path}: {a}", a.key)
        if a1 != a2 or a2 != a3:
            return fail("attributes_differ", f"{stage} {path}: handle-chain {a1} view-chain {a2} view-of-view {a3}", cspec["k"])
        if int(ho._offset) != int(vo._offset):
            return fail("offset_differs", f"{stage} {path}: {ho._offset} vs {vo._offset}", cspec["k"])
        if path:
            if cspec["k"] == "array" and (any(x is None for x in cspec["shape"]) or tg.is_dynamic(cspec["item"])):
                labels.add("nt")
            if cspec["k"] == "struct" and sum(1 for _, t in cspec["fields"] if tg.is_dynamic(t)) >= 2:
                labels.add("nt")
    return None


def run_case(case):
    spec, value, p = case["type"], case["value"], case["placement"]
    tl = tg.type_labels(spec)
    node, obj, env, buf, tr, labels = c01.build(case)
    labels |= tl
    if is_raised(obj):
        return fail("construct_raised", f"{obj}", obj.key, labels)
    expected = mat.expected_value(spec, value)
    # scalars left uninitialised by the dims form: pin them to what the handle reads
    got0 = sut(mat.walk, obj, node)
    if is_raised(got0):
        return fail("handle_read_raised", f"initial: {got0}", got0.key, labels)
    d = tg.first_diff(spec, expected, got0)
    if d:
        return fail("handle_value", f"initial: {d}", c01.diff_key(d), labels)
    expected = got0
    view = sut(lambda: type(obj)._from_buffer(obj._buffer, obj._offset))
    if is_raised(view):
        return fail("from_buffer_raised", f"{view}", view.key, labels)
    r = compare_chains(obj, view, node, expected, labels, "initial")
    if r:
        r.labels = sorted(labels)
        return r
    leaves = mat.leaf_paths(spec, expected)
    for w in case["writes"]:
        if not leaves:
            break
        path, lspec = leaves[w["li"] % len(leaves)]
        if not path:
            continue
        _, cur = mat.model_get(spec, expected, path)
        new = fit_value(lspec, w, cur)
        if w["via"] == "handle":
            tgt = obj
            labels.add("write_via_handle")
        elif w["via"] == "view":
            tgt = view
            labels.add("write_via_view")
        else:
            tgt = sut(mat.view_of, view)
            labels.add("write_via_view")
            if is_raised(tgt):
                return fail("from_buffer_raised", f"{tgt}", tgt.key, labels)
        s = sut(mat.obj_set, tgt, node, path, new)
        if is_raised(s):
            return fail("write_raised", f"{path} <- {new!r} via {w['via']}: {s}", s.key, labels)
        mat.model_set(spec, expected, path, new)
        r = compare_chains(obj, view, node, expected, labels, f"after write {path} via {w['via']}")
        if r:
            r.labels = sorted(labels)
            return r
    for op in case.get("cwrites", []):
        r = assign.apply_op(dict(op, kind="compound"), obj, node, expected, labels)
        if isinstance(r, tuple) and r[0] == "skip":
            continue
        if is_raised(r):
            return fail("write_raised", f"whole-element assignment via {op['via']}: {r}", "compound|" + r.key, labels)
        labels.add("whole_element_write")
        r = compare_chains(obj, view, node, expected, labels, f"after whole-element assignment at {r[1]} via {op['via']}")
        if r:
            r.labels = sorted(labels)
            return r
    leaves = mat.leaf_paths(spec, expected)  # whole-element assignments may have nulled references
    if case["grow"]:
        g = sut(obj._buffer.grow, case["grow"])
        if is_raised(g):
            return fail("grow_raised", f"{g}", g.key, labels)
        labels.add("grown")
        view2 = sut(lambda: type(obj)._from_buffer(obj._buffer, obj._offset))
        if is_raised(view2):
            return fail("from_buffer_raised", f"after growth: {view2}", view2.key, labels)
        for v, nm in ((view, "old view"), (view2, "new view")):
            r = compare_chains(obj, v, node, expected, labels, f"after growth ({nm})")
            if r:
                r.labels = sorted(labels)
                return r
        # and a write after the growth, through the new view and through the handle
        for w, tgt, nm in zip(case["writes"][:2], (view2, obj), ("new view", "handle")):
            if not leaves:
                break
            path, lspec = leaves[(w["li"] + 1) % len(leaves)]
            if not path:
                continue
            _, cur = mat.model_get(spec, expected, path)
            new = fit_value(lspec, w, cur)
            s = sut(mat.obj_set, tgt, node, path, new)
            if is_raised(s):
                return fail("write_raised", f"after growth {path} <- {new!r} via {nm}: {s}", s.key, labels)
            mat.model_set(spec, expected, path, new)
            labels.add("write_after_growth")
            for v, vn in ((view, "old view"), (view2, "new view")):
                r = compare_chains(obj, v, node, expected, labels, f"after growth and write via {nm} ({vn})")
                if r:
                    r.labels = sorted(labels)
                    return r
    nontrivial = "nt" in labels
    labels.discard("nt")
    return Outcome(True, labels=sorted(labels), nontrivial=nontrivial)


# --------------------------------------------------------------------------
# exhaustive array layer (vlib/arraylayer.py)
# --------------------------------------------------------------------------
from vlib import arraylayer  # noqa: E402

EXHAUSTIVE_SCOPE = arraylayer.SCOPE


def exhaustive_jobs(tier):
    return arraylayer.jobs(tier)


def run_exhaustive_job(job):
    return arraylayer.run_job(run_case, job, extra={"writes": [{"li": 1, "via": "view", "int": 3, "float": 2.5, "text": "q"}, {"li": 2, "via": "handle", "int": -1, "float": -0.5, "text": ""}], "grow": 8})
