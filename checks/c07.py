"""C07 — C setters change exactly one element; accessors stay in bounds under sanitizers."""

import os
import struct as _struct

from hypothesis import strategies as st

from vlib.core import Outcome, fail, sut, is_raised
from vlib import typegen as tg
from vlib import mat, cbuild, assign
from vlib import placement as pl
from checks import c01, c02

ID = "C07"
LEVEL = "exploration"
FP_MODE_MATTERS = True  # values travel through compiled code: see vlib/main.py run_case_guarded
SHRINK_BUDGET = 30
RULE = (
    "case = generated type expression x value x placement (as C02). Part 1 (in-process, library build path): for "
    "every scalar-leaf path and every in-range index tuple the setter is called with a generated in-range value; the "
    "full Python re-read must equal the previous value with exactly that element replaced (bit-exact) and the byte "
    "diff of the whole buffer must lie inside that element's [addr, addr+itemsize). Part 2 (about 40% of cases): the "
    "emitted cpu_serial source plus a generated driver is built stand-alone with clang -fsanitize=address,undefined; "
    "the object image is copied into a malloc() block of exactly its size (reference-free objects: flush against "
    "the end, red zones on both sides; reference-bearing objects: buffer prefix up to the last live byte) at an "
    "8-aligned address; every get/getp/len/typeid/member accessor is called with every in-range index tuple and "
    "every setter writes back the value it read; oracle: no sanitizer report, exit status 0, printed results equal "
    "the Python expectations. Non-trivial = a setter path with an index or reference was exercised; distinct = distinct case JSON."
)
ASSUMPTIONS = c02.ASSUMPTIONS + ["sanitizer run: clang 14, x86-64, images 8-aligned at the object start"]


def budget(tier):
    return {"examples": 60 if tier == "quick" else 600}


def essential_labels(tier):
    return ["sanitized", "setter_with_index", "setter_last_element", "setter_through_reference", "san_flush_against_end"]


@st.composite
def cases(draw, tier):
    c = draw(c02.cases(tier))
    c["setvals"] = draw(st.lists(assign.op_specs, min_size=1, max_size=4))
    c["san"] = draw(st.integers(0, 4)) < 2
    return c


def strategy(tier):
    return cases(tier)


_CT = {"Float64": "double", "Float32": "float", "Int64": "int64_t", "UInt64": "uint64_t", "Int32": "int32_t", "UInt32": "uint32_t", "Int16": "int16_t", "UInt16": "uint16_t", "Int8": "int8_t", "UInt8": "uint8_t"}


def bits_of(t, v):
    fmt = tg_layout_fmt(t)
    raw = _struct.pack(fmt, v)
    return int.from_bytes(raw, "little")


def tg_layout_fmt(t):
    from vlib.layout import _FMT

    return _FMT[t]


def run_case(case):
    r = c02.run_case(case, with_setters=True)
    if isinstance(r, Outcome):
        return r
    node, obj, model, ks, labels, _ = r
    spec = case["type"]
    ctx = obj._buffer.context
    root = node.cls.__name__
    base = cbuild.base_address(obj)
    off0 = int(obj._offset)
    buf = obj._buffer
    nontrivial = False
    wi = 0
    calls = []  # for the sanitizer driver
    # ---------------- part 1: setters in process
    for steps, last in cbuild.api_paths(spec):
        names = cbuild.kernel_names(root, steps, last)
        insts = cbuild.instances(spec, model, steps)
        for n_i, (idxs, cpath, sub) in enumerate(insts):
            calls.append((steps, last, names, idxs, cpath))
            if last["k"] != "scalar":
                continue
            w = case["setvals"][wi % len(case["setvals"])]
            wi += 1
            new = assign.fit_value(last, w, sub)
            args = {"obj": obj}
            for i, v in enumerate(idxs):
                args[f"i{i}"] = v
            before = pl.snapshot(buf)
            kern = ctx.kernels[names["set"]]
            s = sut(lambda: kern(**args, value=new))
            if is_raised(s):
                return fail("set_raised", f"{names['set']}{idxs} <- {new!r}: {s}", s.key, labels)
            if cpath:
                mat.model_set(spec, model, cpath, new) if cpath[-1][0] != "d" else None
            got = sut(mat.walk, obj, node)
            if is_raised(got):
                return fail("read_raised_after_set", f"{names['set']}{idxs}: {got}", got.key, labels)
            d = tg.first_diff(spec, model, got)
            if d:
                return fail("set_effect", f"{names['set']}{idxs} <- {new!r}: re-read differs: {d}", c02._feature(spec, steps), labels)
            after = pl.snapshot(buf)
            addr = cbuild.py_offset(obj, node, cpath)
            isz = tg.SCALAR_SIZE[last["t"]]
            bad = [i for i in pl.diff_positions(before, after) if not (addr <= i < addr + isz)]
            if bad:
                return fail("set_wrote_elsewhere", f"{names['set']}{idxs}: bytes {bad[:8]} changed, element at [{addr},{addr + isz})", c02._feature(spec, steps), labels)
            if any(s_[0] == "i" for s_ in steps):
                labels.add("setter_with_index")
                nontrivial = True
                if n_i == len(insts) - 1:
                    labels.add("setter_last_element")
            if any(s_[0] == "d" for s_ in steps):
                labels.add("setter_through_reference")
                nontrivial = True
    # ---------------- part 2: sanitizers
    if case.get("san"):
        r = sanitizer_run(case, node, obj, model, ks, calls, labels)
        if r is not None:
            return r
    return Outcome(True, labels=sorted(labels), nontrivial=nontrivial)


def sanitizer_run(case, node, obj, model, ks, calls, labels):
    spec = case["type"]
    ctx = obj._buffer.context
    root = node.cls.__name__
    buf = obj._buffer
    off0 = int(obj._offset)
    any_kernel = ctx.kernels[next(iter(ks))]
    source = any_kernel.specialized_source.replace("#include <omp.h>", "")  # the accessor API does not use OpenMP
    if tg.has_refs(spec):
        # buffer prefix up to the last byte any object occupies (references are relative, so relocation is harmless)
        from vlib import layout

        img_all = pl.snapshot(buf)
        ext = layout.extents(spec, img_all, off0)
        if any((s - off0) % 8 for _, s, e, k, parent in ext if parent is None):
            # a referent that is not 8-aligned RELATIVE to the holder (the holder or the referent was placed with
            # offset="packed"): in the real buffer one of the two is misaligned, in the relocated image the other one;
            # UBSan's alignment check is not the subject here, so the sanitizer part is skipped for such placements
            labels.add("san_skipped_unaligned_referent")
            return None
        end = max(e for _, s, e, k, parent in ext)
        start = min(s for _, s, e, k, parent in ext)
        image = img_all[start:end]
        rel = off0 - start
    else:
        image = pl.snapshot(buf)[off0 : off0 + int(obj._size)]
        rel = 0
        labels.add("san_flush_against_end")
    lines = [source, "#include <stdio.h>", "#include <stdlib.h>", "#include <string.h>", "", "static const unsigned char IMAGE[] = {" + ",".join(str(b) for b in image) + ("0" if not image else "") + "};", ""]
    lines.append("int main(void){")
    n = len(image)
    # object start 16-aligned: pad so that (block + pad + rel) % 16 == 0, the block ends exactly at the image end
    pad = (-rel) % 16
    lines.append(f"  unsigned char* block = (unsigned char*) malloc({n + pad});")
    lines.append(f"  memcpy(block + {pad}, IMAGE, {n});")
    lines.append(f"  {root} obj = ({root})(block + {pad + rel});")
    expected = []
    cid = 0
    for steps, last, names, idxs, cpath in calls:
        ia = "".join(f", {i}" for i in idxs)
        k = last["k"]
        pyoff = cbuild.py_offset(obj, node, cpath) - off0
        lines.append(f'  printf("{cid} %lld\\n", (long long)((char*){names["getp"]}(obj{ia}) - (char*)obj));')
        expected.append((cid, "getp", names["getp"], idxs, pyoff))
        cid += 1
        _, sub = mat.model_get(spec, model, cpath) if cpath else (spec, model)
        if k == "scalar":
            ct = _CT[last["t"]]
            lines.append(f"  {{ {ct} v = {names['get']}(obj{ia}); uint64_t b = 0; memcpy(&b, &v, sizeof(v)); printf(\"{cid} %llu\\n\", (unsigned long long) b); {names['set']}(obj{ia}, v); }}")
            expected.append((cid, "get", names["get"], idxs, (last, sub)))
            cid += 1
        if k == "array":
            exp = 1
            for d in sub["shape"]:
                exp *= d
            lines.append(f'  printf("{cid} %lld\\n", (long long){names["len"]}(obj{ia}));')
            expected.append((cid, "len", names["len"], idxs, exp))
            cid += 1
        if k == "unionref":
            lines.append(f'  printf("{cid} %lld\\n", (long long){names["typeid"]}(obj{ia}));')
            expected.append((cid, "typeid", names["typeid"], idxs, -1 if sub is None else sub[0]))
            cid += 1
            if sub is not None:
                tgt = mat.obj_get(obj, node, cpath + [["d"]])[0]
                lines.append(f'  printf("{cid} %lld\\n", (long long)((char*){names["member"]}(obj{ia}) - (char*)obj));')
                expected.append((cid, "member", names["member"], idxs, int(tgt._offset) - off0))
                cid += 1
    lines.append("  fflush(stdout);")
    lines.append("  free(block);")
    lines.append("  return 0;")
    lines.append("}")
    code, out = cbuild.san_program("\n".join(lines), os.getcwd())
    labels.add("sanitized")
    if code is None:
        return fail("sanitizer_build_failed", out[-800:], "", labels)
    if code != 0 or "ERROR: AddressSanitizer" in out or "runtime error" in out:
        key = "asan" if "AddressSanitizer" in out else ("ubsan" if "runtime error" in out else "exit")
        first = [l for l in out.splitlines() if "ERROR" in l or "runtime error" in l or "#0" in l or "#1" in l][:4]
        return fail("sanitizer_report", f"exit {code}: " + " | ".join(first), key, labels)
    got = {}
    for ln in out.splitlines():
        parts = ln.split()
        if len(parts) == 2 and parts[0].isdigit():
            got[int(parts[0])] = int(parts[1])
    for cid, kind, name, idxs, exp in expected:
        if cid not in got:
            return fail("sanitizer_output_missing", f"{name}{idxs}: no output line {cid}", kind, labels)
        g = got[cid]
        if kind == "get":
            lspec, val = exp
            t = lspec["t"]
            raw = g.to_bytes(8, "little")[: tg.SCALAR_SIZE[t]]
            cv = _struct.unpack(tg_layout_fmt(t), raw)[0]
            d = tg.first_diff(lspec, val, cv)
            if d:
                return fail("sanitized_get_value", f"{name}{idxs}: {d}", "", labels)
        elif g != exp:
            return fail("sanitized_" + kind, f"{name}{idxs}: C {g}, Python {exp}", "", labels)
    return None
