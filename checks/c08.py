"""C08 — references alias, null and survive buffer growth as documented.

Model-based histories.  The model is an object graph realised with shared
Python values: a slot bound to an existing same-buffer object holds *the very
same* model value object as the pool entry of that object, so a write through
either side updates both; copies are deep copies.
"""

import copy

from hypothesis import strategies as st

from vlib.core import Outcome, fail, sut, is_raised
from vlib import typegen as tg
from vlib import mat, layout, assign, cbuild
from vlib import placement as pl
from checks import c01

ID = "C08"
LEVEL = "exploration"
SHRINK_BUDGET = 250
RULE = (
    "case = reference-bearing holder type (generated from the grammar with raised reference weight: Struct with Ref / "
    "UnionRef fields, arrays of Ref / UnionRef, references nested below arrays, structs and other references) x "
    "initial value x holder buffer (either CPU kind, capacity, alignment, grow step; traced and poisoned) x a history "
    "(<=14 quick / <=40 thorough steps) over {construct a stand-alone object of a slot's target type in the holder's "
    "buffer / another buffer of the context / a buffer of another context, bind-to-existing (same-buffer object, also "
    "an object nested inside another one), bind-to-value (python data; (typename, data) for unions), bind-to-foreign "
    "object, bind-to-look-alike (a same-buffer object of another class that converts: other struct class with the same fields, "
    "static array for a dynamic-array target, same-named array class with another axis order), bind-to-null (also through a "
    "whole-struct update naming only that field), a stand-alone union-reference object bound to a same-buffer object (resolved "
    "twice after every later step), write-through-ref, write-through-original, grow / allocate-until-growth}, every access "
    "through handles, rebuilt views or a mix. Oracle after EVERY step: full re-read of the holder and of every "
    "stand-alone object equals the shared-value model (alias => writes through either side visible through both; copy "
    "=> later writes to the source do not show); an aliased slot reads back a handle with the offset and buffer of the "
    "bound object; a copy lands at an offset handed out by allocate() during that step, in the holder's buffer; raw "
    "words of a null slot are -2**63 (and -1), it reads None (UnionRef.get() None); every non-null slot, decoded "
    "from the raw bytes by the independent layout model with the recorded member index, resolves inside [0, capacity) "
    "into a region handed out by allocate() and not freed and decodes to the model value; for a sample the compiled "
    "C <T>_typeid / <T>_member agree. Non-trivial = growth after >=1 non-null binding, or a rebind after a "
    "write-through; distinct = distinct case JSON."
)
ASSUMPTIONS = [
    "bound objects are instances of the very class object of the slot's target / member",
    "a holder is never bound into one of its own slots (no reference cycles)",
    "fitting writes only; values in range; strings without NUL",
]


def budget(tier):
    return {"examples": 200 if tier == "quick" else 3000}


def essential_labels(tier):
    return ["op:bind_existing", "op:bind_existing_nested", "op:bind_value", "op:bind_foreign", "op:bind_foreign_other_context", "op:bind_null",
            "op:write_through_ref", "op:write_through_original", "op:grow", "aliased_write_seen", "op:bind_lookalike", "union_slot", "ref_inside_array", "grow_after_binding", "capi"]


# --------------------------------------------------------------------------
# generation
# --------------------------------------------------------------------------


def type_sites(spec, out=None):
    """type-level reference sites in DFS order"""
    if out is None:
        out = []
    for s, _ in tg.subspecs(spec):
        if s["k"] in ("ref", "unionref"):
            out.append(s)
    return out


@st.composite
def cases(draw, tier):
    cfg = tg.Cfg(tier, ref_weight=7, max_leaves=8 if tier == "quick" else 12, roots=("struct", "struct", "array"))
    spec = draw(tg.type_specs(cfg))
    if not tg.has_refs(spec):
        # wrap by construction: a struct holding a Ref, a UnionRef and an array of Ref to the generated compound
        inner = spec
        if inner["k"] == "array" and not inner.get("name"):
            inner = dict(inner, name="AW")
        extra = {"k": "struct", "name": "SW", "fields": [["a", {"k": "scalar", "t": "Int32"}], ["s", {"k": "string"}]]}
        spec = {"k": "struct", "name": "W0", "fields": [
            ["r", {"k": "ref", "to": inner}],
            ["u", {"k": "unionref", "name": "UW", "members": [extra, inner]}],
            ["ar", {"k": "array", "name": None, "item": {"k": "ref", "to": inner}, "shape": [draw(st.sampled_from([2, None]))], "order": [0]}],
            ["x", {"k": "scalar", "t": "Float64"}],
        ]}
    special = draw(st.integers(0, 3)) == 0
    if draw(st.integers(0, 9)) == 0:
        # by construction: items whose reference field declares a non-null default, in arrays created by length
        tgt = draw(st.sampled_from([
            {"k": "array", "name": None, "item": {"k": "scalar", "t": "Float64"}, "shape": [None], "order": [0]},
            {"k": "struct", "name": "DT", "fields": [["p", {"k": "scalar", "t": "Int16"}], ["q", {"k": "scalar", "t": "Float64"}]]},
        ]))
        item = {"k": "struct", "name": "DN", "fields": [["a", {"k": "scalar", "t": "Int32"}],
                                                         ["r", {"k": "ref", "to": tgt, "default": tg._draw_value(draw, tgt, cfg)}]]}
        spec = {"k": "struct", "name": "DW", "fields": [
            ["x", {"k": "scalar", "t": "Float64"}],
            ["items", {"k": "array", "name": None, "item": item, "shape": [draw(st.sampled_from([None, 3]))], "order": [0]}],
            ["one", item]]}
        special = True
    # one case in four: arrays given by length, fields omitted (references with a declared default get a referent of their own)
    value = c01.special_values(draw, spec, cfg, "root") if special else tg._draw_value(draw, spec, cfg)
    if spec.get("name") == "DW":
        value["items"] = {"$dims": [draw(st.integers(2, 4))] if spec["fields"][1][1]["shape"][0] is None else []}
        value["one"]["r"] = {"$omit": 1}
    sites = type_sites(spec)
    nops = draw(st.integers(1, 40 if tier == "thorough" else 14))
    ops = []
    for _ in range(nops):
        kind = draw(st.sampled_from(["construct", "construct", "bind_existing", "bind_existing", "bind_value", "bind_foreign", "bind_foreign",
                                     "bind_null", "write_ref", "write_ref", "write_orig", "write_orig", "grow", "bind_lookalike"]))
        op = {"op": kind, "i": draw(st.integers(0, 1000)), "j": draw(st.integers(0, 1000)), "via": draw(st.sampled_from(["handle", "view", "mix"]))}
        if kind == "construct":
            si = draw(st.integers(0, len(sites) - 1))
            s = sites[si]
            if s["k"] == "ref":
                t, m = s["to"], 0
            else:
                m = draw(st.integers(0, len(s["members"]) - 1))
                t = s["members"][m]
            op.update(site=si, member=m, value=tg._draw_value(draw, t, cfg), where=draw(st.sampled_from(["A", "A", "A", "B", "C"])))
            if draw(st.integers(0, 3)) == 0:
                # a container: an array of two objects of the target type, so that a slot can be bound to a NESTED object
                op["container"] = True
                op["where"] = "A"
                op["value"] = {"shape": [2], "flat": [op["value"], tg._draw_value(draw, t, cfg)]}
        elif kind == "bind_lookalike":
            op["w"] = draw(assign.op_specs)
        elif kind == "bind_value":
            # the value is drawn for every possible target type lazily: keep a seed list of leaf material
            op["w"] = draw(assign.op_specs)
        elif kind in ("write_ref", "write_orig"):
            op["w"] = draw(assign.op_specs)
        elif kind == "grow":
            op["n"] = draw(st.sampled_from([1, 8, 64, "until"]))
        ops.append(op)
    return {
        "type": spec, "value": value, "ops": ops,
        "buf": {"kind": draw(st.sampled_from(["numpy", "numpy", "bytearray"])), "cap": draw(st.sampled_from([0, 64, 256, 1024])),
                "align": draw(st.sampled_from([1, 8, 16])), "grow_step": draw(st.one_of(st.none(), st.integers(1, 128)))},
        "capi": draw(st.integers(0, 5)) == 0, "special": special, "default_as_object": draw(st.booleans()),
    }


def strategy(tier):
    return cases(tier)


# --------------------------------------------------------------------------
# helpers
# --------------------------------------------------------------------------


def site_nodes(node, out=None):
    """Nodes of the reference sites, in the order of type_sites()"""
    if out is None:
        out = []
    if node.spec["k"] in ("ref", "unionref"):
        out.append(node)
    for k in node.kids:
        site_nodes(k, out)
    return out


def target_candidates(rnode):
    """[(member index, Node)] a slot of this reference type can hold"""
    if rnode.spec["k"] == "ref":
        return [(0, rnode.kids[0])]
    return list(enumerate(rnode.kids))


def nested_compounds(spec, value, want_name):
    """paths (not through references) to nested compounds of the wanted class name inside a model value"""
    out = []

    def rec(sp, val, path):
        k = sp["k"]
        if path and k in ("struct", "array") and tg.type_name(sp) == want_name:
            out.append(path)
        if k == "struct":
            for fn, ft in sp["fields"]:
                rec(ft, val[fn], path + [["f", fn]])
        elif k == "array" and sp["item"]["k"] in ("struct", "array"):
            for idx, v in zip(tg.indices(val["shape"]), val["flat"]):
                rec(sp["item"], v, path + [["i", list(idx)]])

    rec(spec, value, [])
    return out


def fresh_value(spec, w, salt):
    """a value of `spec` built from the leaf material of an op spec (used by bind_value)"""
    k = spec["k"]
    if k == "scalar":
        return assign.fit_value(spec, dict(w, int=w["int"] + salt), 0)
    if k == "string":
        return (w["text"] + "abc")[: 1 + (w["li"] + salt) % 6]
    if k == "struct":
        return {fn: fresh_value(ft, w, salt + i + 1) for i, (fn, ft) in enumerate(spec["fields"])}
    if k == "array":
        shape = [(1 + (w["li"] + salt + a) % 3) if d is None else d for a, d in enumerate(spec["shape"])]
        n = 1
        for d in shape:
            n *= d
        return {"shape": shape, "flat": [fresh_value(spec["item"], w, salt + 7 * i) for i in range(n)]}
    if k == "ref":
        return None if (w["li"] + salt) % 3 == 0 else fresh_value(spec["to"], w, salt + 1)
    if k == "unionref":
        if (w["li"] + salt) % 3 == 0:
            return None
        m = (w["li"] + salt) % len(spec["members"])
        return [m, fresh_value(spec["members"][m], w, salt + 1)]
    raise ValueError(k)


def _lookalike_ok(tspec):
    """targets for which a convertible object of another class is easy to state: structs of scalar / string / scalar-array
    fields, and arrays of scalars with exactly one dynamic dimension and C order"""
    if tspec["k"] == "struct":
        return all(ft["k"] in ("scalar", "string") or (ft["k"] == "array" and ft["item"]["k"] == "scalar") for _, ft in tspec["fields"])
    if tspec["k"] == "array":
        if tspec["item"]["k"] == "scalar" and len(tspec["shape"]) >= 2:
            return True  # twin class: same item, shape and NAME, another axis order
        return tspec["item"]["k"] == "scalar" and len(tspec["shape"]) == 1 and tspec["shape"][0] is None
    return False


def _twin_order(order):
    o = list(order)
    r = list(reversed(o))
    return r if r != o else o[1:] + o[:1]


def _make_lookalike(tnode, val, buf):
    import xobjects as xo

    if tnode.spec["k"] == "struct":
        fields = {f.name: f.ftype for f in tnode.cls._fields}
        L = type("Like" + tnode.cls.__name__, (xo.Struct,), fields)
        return L(assign.plain_arg(tnode, val), _buffer=buf)
    item = tnode.kids[0].cls
    n = len(val["flat"])
    if len(tnode.spec["shape"]) >= 2:
        import numpy as np

        shp = tuple(slice(d, o) for d, o in zip(tnode.spec["shape"], _twin_order(tnode.spec["order"])))
        return item[shp](np.array(val["flat"], dtype=item._dtype).reshape(val["shape"]), _buffer=buf)
    return item[max(n, 1)](val["flat"] if n else [0], _buffer=buf) if n else item[1]([0], _buffer=buf)


def _lookalike_node(tnode, look):
    if tnode.spec["k"] == "struct":
        return mat.Node(tnode.spec, type(look), tnode.kids)
    if len(tnode.spec["shape"]) >= 2:
        return mat.Node(dict(tnode.spec, order=_twin_order(tnode.spec["order"]), name=None), type(look), tnode.kids)
    sp = dict(tnode.spec, shape=[int(look._shape[0])], name=None)
    return mat.Node(sp, type(look), tnode.kids)


def run_case(case):
    import xobjects as xo
    from xobjects.context_cpu import BufferNumpy, BufferByteArray

    spec = case["type"]
    labels = set(x for x in tg.type_labels(spec) if x in ("ref_inside_array", "has_ref", "has_unionref", "array_of_dynamic_items", "non_C_order"))
    if "has_unionref" in labels:
        labels.add("union_slot")
    node = mat.materialise(spec)
    ctx = xo.ContextCpu()
    b = case["buf"]
    cls = BufferNumpy if b["kind"] == "numpy" else BufferByteArray
    A = cls(capacity=b["cap"], context=ctx, default_alignment=b["align"], grow_step=b["grow_step"])
    pl.poison_fill(A)
    tr = pl.Tracer(A)
    Bbuf = cls(capacity=64, context=ctx)
    Cbuf = BufferNumpy(capacity=64, context=xo.ContextCpu())
    if spec.get("name") == "DW" and case.get("default_as_object"):
        # the declared default of the items' reference field is an OBJECT of the target type living in the holder's
        # buffer (instead of plain data): every holder / item must still get a referent of its own
        inode = node.kids[2]  # field "one": the item struct DN
        tnode_ = inode.kids[1].kids[0]
        fld = inode.cls.r
        dobj = sut(tnode_.cls, assign.plain_arg(tnode_, spec["fields"][2][1]["fields"][1][1]["default"]), _buffer=A)
        if is_raised(dobj):
            return fail("construct_raised", f"default object: {dobj}", dobj.key, labels)
        fld.default = dobj
        node.kids[1].kids[0].cls.r.default = dobj  # the items of the array are of a class object of their own
        labels.add("declared_default_is_an_object_in_the_holders_buffer")
    holder = sut(mat.construct, node, case["value"], mat.Forms([0]), mat.Env(A, ctx), _buffer=A)
    if is_raised(holder):
        return fail("construct_raised", f"{holder}", holder.key, labels)
    model = mat.expected_value(spec, copy.deepcopy(case["value"]))
    if case.get("special"):
        # by-length arrays / omitted fields leave some scalars unconstrained: pin them to what is read (after comparing)
        got0 = sut(mat.walk, holder, node)
        if is_raised(got0):
            return fail("read_raised", f"initial: holder: {got0}", got0.key, labels)
        d0 = tg.first_diff(spec, model, got0)
        if d0:
            return fail("holder_value", f"initial: {d0}", "initial", labels)
        model = got0
        labels.add("holder_built_with_lengths_or_omitted_fields")
    pool = []  # dicts: obj, node, model, where, path_in_parent(optional)
    snodes = site_nodes(node)
    # physical slot -> (parent model object kept alive, pool index, nested path).  A slot is identified by the IDENTITY of
    # its parent container in the model (shared referents are shared Python objects) plus its last step, not by the
    # path: one slot can be reached through several paths once referents are shared
    aliases = {}
    standalone = []  # (stand-alone union reference object, pool index of the object it was bound to)

    def slot_key(path):
        _, parent = mat.model_get(spec, model, path[:-1])
        return (id(parent), repr(path[-1])), parent
    nontrivial = False
    bound_nonnull = any(v is not None for v in _slot_values(spec, model))
    wrote_through = False

    def check_all(step):
        got = sut(mat.walk, holder, node)
        if is_raised(got):
            return fail("read_raised", f"{step}: holder: {got}", got.key, labels)
        d = tg.first_diff(spec, model, got)
        if d:
            return fail("holder_value", f"{step}: {d}", step.split(" ")[1] if " " in step else "", labels)
        gv = sut(lambda: mat.walk(mat.view_of(holder), node))
        if is_raised(gv) or tg.first_diff(spec, model, gv):
            return fail("holder_view_value", f"{step}: {gv if is_raised(gv) else tg.first_diff(spec, model, gv)}", "", labels)
        for pi, p in enumerate(pool):
            g = sut(mat.walk, p["obj"], p["node"])
            if is_raised(g):
                return fail("read_raised", f"{step}: stand-alone object {pi}: {g}", g.key, labels)
            d = tg.first_diff(p["node"].spec, p["model"], g)
            if d:
                return fail("standalone_value", f"{step}: stand-alone object {pi} in buffer {p['where']}: {d}", p["where"], labels)
        for u, pi in standalone:
            for k_ in (1, 2):
                g = sut(u.get)
                if is_raised(g):
                    return fail("read_raised", f"{step}: stand-alone union reference, read #{k_}: {g}", "standalone|" + g.key, labels)
                tobj = pool[pi]["obj"]
                if g is None or type(g).__name__ != type(tobj).__name__ or int(g._offset) != int(tobj._offset) or g._buffer is not A:
                    return fail("alias_identity", f"{step}: stand-alone union reference at {u._offset}, read #{k_}: resolves to a {type(g).__name__} at {getattr(g, "_offset", None)}; the bound object is at {tobj._offset}", "standalone", labels)
        # raw-byte validity of every slot reachable in the model
        img = pl.snapshot(A)
        cap = int(A.capacity)
        off0 = int(holder._offset)
        live = [(o, o + s) for o, s in tr.live]
        for path, rspec in mat.ref_slots(spec, model):
            try:
                _, addr = layout.locate(spec, img, off0, cbuild.layout_steps(path))
            except layout.LayoutError as e:
                return fail("slot_unlocatable", f"{step}: {path}: {e}", e.clause, labels)
            if addr is None:
                return fail("slot_unlocatable", f"{step}: {path}: a reference on the way reads null in the bytes", "", labels)
            _, mv = mat.model_get(spec, model, path)
            rel = layout.i64(img, addr)
            if mv is None:
                if rel != layout.NULL:
                    return fail("null_encoding", f"{step}: slot {path} is null in the model, raw word {rel}", rspec["k"], labels)
                if rspec["k"] == "unionref" and layout.i64(img, addr + 8) != -1:
                    return fail("null_encoding", f"{step}: null union slot {path} has member word {layout.i64(img, addr + 8)}", "member", labels)
                continue
            if rel == layout.NULL:
                return fail("slot_null_in_bytes", f"{step}: slot {path} is bound in the model, raw word is the null value", rspec["k"], labels)
            tgt = addr + rel
            if rspec["k"] == "unionref":
                tid = layout.i64(img, addr + 8)
                if tid != mv[0]:
                    return fail("member_index", f"{step}: slot {path}: raw member index {tid}, model {mv[0]}", "", labels)
                tspec, tval = rspec["members"][mv[0]], mv[1]
            else:
                tspec, tval = rspec["to"], mv
            if not (0 <= tgt < cap):
                return fail("target_outside_buffer", f"{step}: slot {path} resolves to {tgt}, capacity {cap}", "", labels)
            try:
                size = layout.object_size(tspec, img, tgt)
                dec = layout.decode(tspec, img, tgt)
            except layout.LayoutError as e:
                return fail("target_undecodable", f"{step}: slot {path} -> {tgt}: {e}", e.clause, labels)
            if not any(lo <= tgt and tgt + size <= hi for lo, hi in live):
                return fail("target_not_live", f"{step}: slot {path} -> [{tgt},{tgt + size}) is not inside a region handed out by allocate() and still live: {sorted(live)[:8]}", "", labels)
            d = tg.first_diff(tspec, tval, dec)
            if d:
                return fail("target_value", f"{step}: slot {path} -> {tgt}: decoded from bytes: {d}", "", labels)
        for path, rspec in mat.ref_slots(spec, model):
            key, _parent = slot_key(path)
            if key not in aliases:
                continue
            _, pi, npath = aliases[key]
            h = sut(lambda: mat.obj_get(holder, node, path + [["d"]])[0])
            if is_raised(h) or h is None:
                return fail("alias_read", f"{step}: aliased slot {path}: {h}", "", labels)
            tobj = pool[pi]["obj"] if not npath else mat.obj_get(pool[pi]["obj"], pool[pi]["node"], npath)[0]
            if int(h._offset) != int(tobj._offset) or h._buffer is not A:
                return fail("alias_identity", f"{step}: slot {path} reads an object at {h._offset}, the bound object is at {tobj._offset}", "nested" if npath else "", labels)
        return None

    r = check_all("initial")
    if r:
        return r
    if "declared_default_is_an_object_in_the_holders_buffer" in labels:
        offs_ = []
        for pth_, _rs in mat.ref_slots(spec, model):
            h_ = sut(lambda: mat.obj_get(holder, node, pth_ + [["d"]])[0])
            if is_raised(h_):
                return fail("read_raised", f"initial: slot {pth_}: {h_}", h_.key, labels)
            if h_ is not None:
                offs_.append(int(h_._offset))
        if len(set(offs_)) != len(offs_) or int(dobj._offset) in offs_:
            return fail("default_referent_shared", f"slots filled from the declared default resolve to offsets {offs_}; the default object itself is at {int(dobj._offset)}: every holder / item must get a referent of its own", "", labels)

    def slot_parent(path, via, salt):
        return assign.reach(holder, node, path[:-1], via, salt)

    for si, op in enumerate(case["ops"]):
        kind = op["op"]
        step = f"step{si} {kind}"
        if kind == "construct":
            rn = snodes[op["site"] % len(snodes)]
            cands = target_candidates(rn)
            m, tnode = cands[op["member"] % len(cands)]
            where = op["where"]
            if op.get("container"):
                tnode = mat.Node({"k": "array", "name": None, "item": tnode.spec, "shape": [2], "order": [0]}, tnode.cls[2], [tnode])
            buf = {"A": A, "B": Bbuf, "C": Cbuf}[where]
            o = sut(mat.construct, tnode, op["value"], mat.Forms([0]), mat.Env(buf, buf.context), _buffer=buf)
            if is_raised(o):
                return fail("construct_raised", f"{step}: {o}", o.key, labels)
            pool.append({"obj": o, "node": tnode, "model": copy.deepcopy(op["value"]), "where": where})
            labels.add("op:construct_" + where)
            if rn.spec["k"] == "unionref" and where == "A" and not op.get("container") and op["i"] % 2 == 0:
                # a STAND-ALONE union reference (an object of the union class itself) bound to that very object; it is
                # resolved again after every later step
                u = sut(rn.cls, o, _buffer=A)
                if is_raised(u):
                    return fail("bind_raised", f"{step}: stand-alone {rn.cls.__name__}(object, _buffer=its buffer): {u}", "standalone|" + u.key, labels)
                standalone.append((u, len(pool) - 1))
                labels.add("op:standalone_union_reference")
                r = check_all(step + " (stand-alone union reference)")
                if r:
                    return r
        elif kind in ("bind_existing", "bind_foreign", "bind_value", "bind_null"):
            slots = mat.ref_slots(spec, model)
            if not slots:
                continue
            if kind in ("bind_existing", "bind_foreign"):
                # by construction: rotate to the first slot for which the pool holds a compatible object
                k0 = op["i"] % len(slots)
                for kk in range(len(slots)):
                    pth, _ = slots[(k0 + kk) % len(slots)]
                    rn_, _ = mat.node_at(node, model, pth)
                    cl = {c.cls for _, c in target_candidates(rn_)}
                    if any(((p["where"] == "A") == (kind == "bind_existing")) and (p["node"].cls in cl or (kind == "bind_existing" and p["node"].spec["k"] == "array" and p["node"].kids[0].cls in cl)) for p in pool):
                        k0 = (k0 + kk) % len(slots)
                        break
                path, rspec = slots[k0]
            else:
                path, rspec = slots[op["i"] % len(slots)]
            rnode, _ = mat.node_at(node, model, path)
            cands = target_candidates(rnode)
            names = {c.cls.__name__: (mi, c) for mi, c in cands}
            mark = tr.mark()
            parent = sut(slot_parent, path, op["via"], op["i"])
            if is_raised(parent):
                return fail("reach_raised", f"{step}: {parent}", parent.key, labels)
            key, key_parent = slot_key(path)

            def drop_aliases():
                aliases.pop(key, None)  # this physical slot is rebound (slots inside the old referent stay what they are)

            if kind == "bind_null":
                if op["j"] % 3 == 0 and path[-1][0] == "f" and parent[1].spec["k"] == "struct":
                    # the null arrives through a whole-struct assignment naming only this field
                    r = sut(parent[0]._update, {path[-1][1]: None})
                    labels.add("op:bind_null_by_whole_struct_update")
                else:
                    r = sut(mat.obj_set, parent[0], parent[1], path[-1:], None)
                if is_raised(r):
                    return fail("bind_raised", f"{step} slot {path}: {r}", "null|" + r.key, labels)
                drop_aliases()
                mat.model_set(spec, model, path, None)
                labels.add("op:bind_null")
                if rspec["k"] == "unionref":
                    labels.add("op:bind_null_union")
            elif kind == "bind_value":
                mi, tnode = cands[op["j"] % len(cands)]
                val = fresh_value(tnode.spec, op["w"], si)
                arg = assign.plain_arg(tnode, val)
                if rspec["k"] == "unionref":
                    arg = (tnode.cls.__name__, arg)
                r = sut(mat.obj_set, parent[0], parent[1], path[-1:], arg)
                if is_raised(r):
                    return fail("bind_raised", f"{step} slot {path}: {r}", "value|" + r.key, labels)
                drop_aliases()
                mat.model_set(spec, model, path, [mi, val] if rspec["k"] == "unionref" else val)
                h = sut(lambda: mat.obj_get(holder, node, path + [["d"]])[0])
                if is_raised(h) or h is None:
                    return fail("bound_slot_unreadable", f"{step} slot {path}: {h}", "value", labels)
                got_offs = [o for o, s in tr.allocated_since(mark)]
                if int(h._offset) not in got_offs or h._buffer is not A:
                    return fail("copy_not_freshly_allocated", f"{step}: slot {path} bound to data reads an object at {h._offset}; allocate() handed out {got_offs} during the step", "value", labels)
                labels.add("op:bind_value")
                bound_nonnull = True
            else:
                want_A = kind == "bind_existing"
                choices = []
                for pi, p in enumerate(pool):
                    nm = p["node"].cls.__name__
                    if (p["where"] == "A") != want_A:
                        continue
                    if nm in names and p["node"].cls is names[nm][1].cls:
                        choices.append((pi, [], names[nm][0]))
                    if want_A:
                        for nm2, (mi2, c2) in names.items():
                            for npath in nested_compounds(p["node"].spec, p["model"], nm2):
                                nn, _ = mat.node_at(p["node"], p["model"], npath)
                                if nn.cls is c2.cls:
                                    choices.append((pi, npath, mi2))
                if not choices:
                    continue
                nested_first = [c for c in choices if c[1]]
                pick = nested_first[op["j"] % len(nested_first)] if (nested_first and op["j"] % 3 == 0) else choices[op["j"] % len(choices)]
                pi, npath, mi = pick
                src = pool[pi]
                sobj = src["obj"] if not npath else sut(lambda: mat.obj_get(src["obj"], src["node"], npath)[0])
                if is_raised(sobj):
                    return fail("reach_raised", f"{step}: nested source {npath}: {sobj}", sobj.key, labels)
                smodel = src["model"] if not npath else mat.model_get(src["node"].spec, src["model"], npath)[1]
                r = sut(mat.obj_set, parent[0], parent[1], path[-1:], sobj)
                if is_raised(r):
                    return fail("bind_raised", f"{step} slot {path} <- object {pi}{npath} in buffer {src['where']}: {r}", ("existing|" if want_A else "foreign|") + r.key, labels)
                drop_aliases()
                h = sut(lambda: mat.obj_get(holder, node, path + [["d"]])[0])
                if is_raised(h) or h is None:
                    return fail("bound_slot_unreadable", f"{step} slot {path}: {h}", "existing" if want_A else "foreign", labels)
                if want_A:
                    shared = smodel  # the very same model value: alias
                    mat.model_set(spec, model, path, [mi, shared] if rspec["k"] == "unionref" else shared)
                    aliases[key] = (key_parent, pi, npath)
                    if int(h._offset) != int(sobj._offset) or h._buffer is not A:
                        return fail("alias_identity", f"{step}: slot {path} bound to the object at {sobj._offset} of its own buffer reads back an object at {h._offset}", "nested" if npath else "", labels)
                    labels.add("op:bind_existing_nested" if npath else "op:bind_existing")
                else:
                    cp = copy.deepcopy(smodel)
                    mat.model_set(spec, model, path, [mi, cp] if rspec["k"] == "unionref" else cp)
                    got_offs = [o for o, s in tr.allocated_since(mark)]
                    if h._buffer is not A or int(h._offset) not in got_offs:
                        return fail("copy_not_freshly_allocated", f"{step}: slot {path} bound to an object of buffer {src['where']} reads an object at {h._offset} (buffer is holder's: {h._buffer is A}); allocate() handed out {got_offs}", "foreign", labels)
                    labels.add("op:bind_foreign")
                    if src["where"] == "C":
                        labels.add("op:bind_foreign_other_context")
                bound_nonnull = True
            if wrote_through:
                nontrivial = True
                labels.add("rebind_after_write_through")
        elif kind == "bind_lookalike":
            # an object of ANOTHER class that lives in the holder's own buffer and converts to the slot's type (a struct
            # class with the same fields under another name; a static array for a dynamic-array target): it is data,
            # not "that very object" - a new independent object of the recorded type must be created
            slots = []
            for pth, rs in mat.ref_slots(spec, model):
                rn_, _ = mat.node_at(node, model, pth)
                for mi_, tn_ in target_candidates(rn_):
                    if rs["k"] == "ref" and _lookalike_ok(tn_.spec):
                        slots.append((pth, rs, mi_, tn_))
                    elif rs["k"] == "unionref" and tn_.spec["k"] == "array" and tn_.spec["item"]["k"] == "scalar" and len(tn_.spec["shape"]) >= 2:
                        slots.append((pth, rs, mi_, tn_))  # union member and its same-named twin of another axis order
            if not slots:
                continue
            path, rspec, mi, tnode = slots[op["i"] % len(slots)]
            if rspec["k"] == "unionref":
                labels.add("op:bind_lookalike_union_member_twin")
            val = fresh_value(tnode.spec, op["w"], si)
            look = sut(_make_lookalike, tnode, val, A)
            if is_raised(look):
                return fail("construct_raised", f"{step}: look-alike source: {look}", look.key, labels)
            parent = sut(slot_parent, path, op["via"], op["i"])
            if is_raised(parent):
                return fail("reach_raised", f"{step}: {parent}", parent.key, labels)
            mark = tr.mark()
            r = sut(mat.obj_set, parent[0], parent[1], path[-1:], look)
            if is_raised(r):
                # refusing an object of another class is allowed (it is not a member of the reference's type); nothing was bound
                labels.add("op:bind_lookalike_refused")
                r2 = check_all(step + " (refused)")
                if r2:
                    return r2
                continue
            aliases.pop(slot_key(path)[0], None)
            mat.model_set(spec, model, path, [mi, copy.deepcopy(val)] if rspec["k"] == "unionref" else copy.deepcopy(val))
            h = sut(lambda: mat.obj_get(holder, node, path + [["d"]])[0])
            if is_raised(h) or h is None:
                return fail("bound_slot_unreadable", f"{step} slot {path}: {h}", "lookalike", labels)
            got_offs = [o for o, s_ in tr.allocated_since(mark)]
            if int(h._offset) == int(look._offset) or int(h._offset) not in got_offs:
                return fail("foreign_class_object_aliased", f"{step}: slot {path} (target {tnode.cls.__name__}) bound to a {type(look).__name__} at {look._offset} of the same buffer reads an object at {h._offset}; allocate() handed out {got_offs}", "lookalike", labels)
            if type(h).__name__ != tnode.cls.__name__:
                return fail("referent_of_wrong_type", f"{step}: slot {path} resolves to a {type(h).__name__}", "lookalike", labels)
            # the source stays an independent object: a write to it must not show
            pool.append({"obj": look, "node": _lookalike_node(tnode, look), "model": copy.deepcopy(val), "where": "A"})
            labels.add("op:bind_lookalike")
            bound_nonnull = True
        elif kind == "write_ref":
            leaves = [(p, s) for p, s in mat.leaf_paths(spec, model) if any(x[0] == "d" for x in p)]
            if not leaves:
                continue
            path, lspec = leaves[op["i"] % len(leaves)]
            _, cur = mat.model_get(spec, model, path)
            new = assign.fit_value(lspec, op["w"], cur)
            parent = sut(assign.reach, holder, node, path[:-1], op["via"], op["i"])
            if is_raised(parent):
                return fail("reach_raised", f"{step}: {parent}", parent.key, labels)
            r = sut(mat.obj_set, parent[0], parent[1], path[-1:], new)
            if is_raised(r):
                return fail("write_raised", f"{step} {path}: {r}", "ref|" + r.key, labels)
            mat.model_set(spec, model, path, new)
            labels.add("op:write_through_ref")
            wrote_through = True
            if any(slot_key(path[: n])[0] in aliases for n in range(1, len(path)) if path[n - 1][0] != "d"):
                labels.add("aliased_write_seen")
        elif kind == "write_orig":
            if not pool:
                continue
            pi = op["i"] % len(pool)
            p = pool[pi]
            leaves = [(q, s) for q, s in mat.leaf_paths(p["node"].spec, p["model"]) if q]
            if not leaves:
                continue
            path, lspec = leaves[op["j"] % len(leaves)]
            _, cur = mat.model_get(p["node"].spec, p["model"], path)
            new = assign.fit_value(lspec, op["w"], cur)
            r = sut(mat.obj_set, p["obj"], p["node"], path, new)
            if is_raised(r):
                return fail("write_raised", f"{step} object {pi} {path}: {r}", "orig|" + r.key, labels)
            mat.model_set(p["node"].spec, p["model"], path, new)
            labels.add("op:write_through_original")
            if any(a[1] == pi for a in aliases.values()):
                labels.add("aliased_write_seen")
                wrote_through = True
        elif kind == "grow":
            cap0 = int(A.capacity)
            if op["n"] == "until":
                r = sut(A.allocate, int(A.get_free()) + 1 + op["i"] % 32)
            else:
                r = sut(A.grow, op["n"])
            if is_raised(r):
                return fail("grow_raised", f"{step}: {r}", r.key, labels)
            if int(A.capacity) <= cap0:
                return fail("no_growth", f"{step}: capacity stayed {cap0}", "", labels)
            labels.add("op:grow")
            if bound_nonnull:
                labels.add("grow_after_binding")
                nontrivial = True
        r = check_all(step)
        if r:
            return r

    if case.get("capi"):
        labels.add("capi")
        r = _capi(holder, node, spec, model, A, labels)
        if r:
            return r
    return Outcome(True, labels=sorted(labels), nontrivial=nontrivial)


def _slot_values(spec, model):
    return [mat.model_get(spec, model, p)[1] for p, _ in mat.ref_slots(spec, model)]


def _capi(holder, node, spec, model, A, labels):
    ctx = A.context
    ks = sut(cbuild.compile_api, node.cls, ctx)
    if is_raised(ks):
        return fail("api_build_failed", f"{ks}", ks.key, labels)
    base = cbuild.base_address(holder)
    off0 = int(holder._offset)
    root = node.cls.__name__
    for steps, last in cbuild.api_paths(spec):
        if last["k"] != "unionref":
            continue
        names = cbuild.kernel_names(root, steps, last)
        for idxs, cpath, sub in cbuild.instances(spec, model, steps):
            args = {"obj": holder}
            for i, v in enumerate(idxs):
                args[f"i{i}"] = v
            kern = ctx.kernels[names["typeid"]]
            g = sut(lambda: kern(**args))
            if is_raised(g):
                return fail("typeid_raised", f"{names['typeid']}{idxs}: {g}", g.key, labels)
            exp = -1 if sub is None else sub[0]
            if int(g) != exp:
                return fail("c_typeid", f"{names['typeid']}{idxs}: C {g}, model member index {exp}", "", labels)
            if sub is not None:
                kern = ctx.kernels[names["member"]]
                g = sut(lambda: cbuild.to_int(kern, kern(**args)))
                if is_raised(g):
                    return fail("member_raised", f"{names['member']}{idxs}: {g}", g.key, labels)
                tgt = mat.obj_get(holder, node, cpath + [["d"]])[0]
                if g - base != int(tgt._offset) - off0:
                    return fail("c_member", f"{names['member']}{idxs}: C offset {g - base}, Python referent offset {int(tgt._offset) - off0}", "", labels)
            labels.add("capi_union_called")
    return None
