"""C09 — copy-construction yields an equal, storage-disjoint object."""

from hypothesis import strategies as st

from vlib.core import Outcome, fail, sut, is_raised, Finding
from vlib import typegen as tg
from vlib import mat, assign, layout
from vlib import placement as pl
from checks import c01

ID = "C09"
LEVEL = "exploration"
RULE = (
    "generated type expression (reference weight raised; references below arrays and nested structs) x value x input "
    "forms x placement of the original x destination of the copy in {same buffer, other buffer of the same context, "
    "buffer of another context, no buffer with _context=other context, no buffer at all} x 0..4 later writes (leaf, whole nested struct/array, strings of any fitting size) on "
    "either side. Oracle: the copy reads back equal to the model and to the original; its extent is disjoint from "
    "the original's; every reference inside the copy resolves (independent layout decoder on the copy's buffer "
    "image) inside the copy's own buffer to a region handed out by allocate(): to the very same offset as in the "
    "original when both share a buffer, to a distinct duplicate otherwise; a write to a non-reference part of either "
    "side never shows through the other; writes through references are shared exactly when the buffer is shared. "
    "Non-trivial = the type has a reference below an array or nested struct, or >= 2 dynamic fields; distinct = distinct case JSON."
)
ASSUMPTIONS = c01.ASSUMPTIONS + [
    "roots are struct, array and string objects (a stand-alone UnionRef object is constructed from a member object, not from another UnionRef)",
]

DESTS = ["same_buffer", "other_buffer", "other_context_buffer", "other_context", "default"]


def budget(tier):
    return {"examples": 800 if tier == "quick" else 8000}


def essential_labels(tier):
    return ["dest:" + d for d in DESTS] + ["ref_inside_array", "has_unionref", "has_ref", "write_orig", "write_copy", "write_through_reference"]


@st.composite
def cases(draw, tier):
    cfg = tg.Cfg(tier, big_weight=8, allow_huge=True, ref_weight=5, roots=("struct", "struct", "array", "array", "string"))
    spec = draw(tg.type_specs(cfg))
    value = c01.special_values(draw, spec, cfg)
    p = draw(pl.placements())
    return {
        "type": spec,
        "value": value,
        "forms": draw(st.lists(st.integers(0, 11), max_size=12)),
        "placement": p,
        "dest": draw(st.sampled_from(DESTS)),
        "dest_offset": draw(st.sampled_from([None, None, "aligned", "packed"])),
        "writes": draw(st.lists(st.tuples(st.sampled_from(["orig", "copy"]), assign.op_specs), max_size=4)),
    }


def strategy(tier):
    return cases(tier)


def ref_targets(spec, img, off):
    """[(path, start, end)] of reference targets reachable from the object (layout model)"""
    return [(p, s, e) for p, s, e, k, parent in layout.extents(spec, img, off)[1:] if parent is None]


def run_case(case):
    spec, value = case["type"], case["value"]
    labels = set(tg.type_labels(spec))
    node, orig, env, buf, tr, lb2 = c01.build(case)
    labels |= lb2
    labels.add("dest:" + case["dest"])
    if is_raised(orig):
        return fail("construct_raised", f"{orig}", orig.key, labels)
    model = sut(mat.walk, orig, node)
    if is_raised(model):
        return fail("read_raised", f"{model}", model.key, labels)
    import xobjects as xo

    obuf = orig._buffer
    dest = case["dest"]
    kw = {}
    dtr = None
    if dest == "same_buffer":
        kw["_buffer"] = obuf
        dtr = tr if tr is not None else pl.Tracer(obuf)
    elif dest == "other_buffer":
        b2 = type(obuf)(capacity=16, context=obuf.context)
        pl.poison_fill(b2)
        dtr = pl.Tracer(b2)
        kw["_buffer"] = b2
    elif dest == "other_context_buffer":
        c2 = xo.ContextCpu()
        b2 = c2.new_buffer(8)
        pl.poison_fill(b2)
        dtr = pl.Tracer(b2)
        kw["_buffer"] = b2
    elif dest == "other_context":
        kw["_context"] = xo.ContextCpu()
    if "_buffer" in kw and case["dest_offset"]:
        kw["_offset"] = case["dest_offset"]
    mark = dtr.mark() if dtr else 0
    copy = sut(lambda: node.cls(orig, **kw))
    if is_raised(copy):
        return fail("copy_raised", f"{dest}: {copy}", copy.key, labels)
    cbuf = copy._buffer
    shared = cbuf is obuf
    if dest == "same_buffer" and not shared:
        return fail("copy_in_wrong_buffer", "same-buffer copy landed elsewhere", "", labels)
    if dest in ("other_buffer", "other_context_buffer") and cbuf is not kw["_buffer"]:
        return fail("copy_in_wrong_buffer", f"{dest}", "", labels)
    if dest == "other_context" and cbuf.context is not kw["_context"]:
        return fail("copy_in_wrong_context", f"{dest}", "", labels)
    got = sut(mat.walk, copy, node)
    if is_raised(got):
        return fail("copy_read_raised", f"{dest}: {got}", got.key, labels)
    d = tg.first_diff(spec, model, got)
    if d:
        return fail("copy_value_differs", f"{dest}: {d}", c01.diff_key(d), labels)
    og = sut(mat.walk, orig, node)
    if is_raised(og) or tg.first_diff(spec, model, og):
        return fail("original_changed_by_copy", f"{dest}: {og if is_raised(og) else tg.first_diff(spec, model, og)}", "", labels)
    # --- storage
    if spec["k"] != "string" or True:
        o0, o1 = int(orig._offset), int(orig._offset) + int(orig._size)
        c0, c1 = int(copy._offset), int(copy._offset) + int(copy._size)
        if shared and c0 < o1 and o0 < c1:
            return fail("copy_overlaps_original", f"original [{o0},{o1}) copy [{c0},{c1})", "", labels)
        if int(copy._size) != int(orig._size) and not tg.has_refs(spec) and "$cap" not in str(value):
            return fail("copy_size_differs", f"{orig._size} vs {copy._size}", "", labels)
    # --- references inside the copy
    if tg.has_refs(spec):
        cimg = pl.snapshot(cbuf)
        oimg = cimg if shared else pl.snapshot(obuf)
        try:
            ct = ref_targets(spec, cimg, int(copy._offset))
            ot = ref_targets(spec, oimg, int(orig._offset))
        except layout.LayoutError as e:
            return fail("copy_references_undecodable", str(e), e.clause, labels)
        if len(ct) != len(ot):
            return fail("copy_reference_count", f"{len(ot)} vs {len(ct)}", "", labels)
        handed = [(o, o + s) for o, s in dtr.allocated_since(mark)] if dtr else None
        for (pth, cs, ce), (_, os_, oe) in zip(ct, ot):
            if cs < 0 or ce > len(cimg):
                return fail("copy_reference_outside_buffer", f"{pth}: [{cs},{ce}) capacity {len(cimg)}", "", labels)
            if shared:
                if (cs, ce) != (os_, oe):
                    return fail("copy_reference_not_same_referent", f"{pth}: original -> [{os_},{oe}), copy -> [{cs},{ce}) in the shared buffer", "", labels)
            else:
                if handed is not None and not any(hs <= cs and ce <= he for hs, he in handed):
                    return fail("copy_reference_not_allocated", f"{pth}: copy -> [{cs},{ce}) which allocate() did not hand out in the copy's buffer ({handed})", "", labels)
    # --- later writes
    mo = model
    mc = sut(mat.walk, copy, node)
    unshared = []
    for side, op in case["writes"]:
        op = dict(op)
        if op["kind"] not in ("leaf", "compound", "wild_string"):
            op["kind"] = "leaf"
        tgt, tm, other, om, oname = (orig, mo, copy, mc, "copy") if side == "orig" else (copy, mc, orig, mo, "original")
        r = assign.apply_op(op, tgt, node, tm, labels)
        if isinstance(r, tuple) and r[0] == "skip":
            continue
        if is_raised(r):
            return fail("write_raised", f"{side} {op['kind']}: {r}", op["kind"] + "|" + r.key, labels)
        path = r[1]
        labels.add("write_" + side)
        labels.add("write_kind:" + op["kind"])
        through_ref = any(s_[0] == "d" for s_ in path)
        still_shared = shared and not any(path[: len(u)] == u for u in unshared)
        if op["kind"] == "compound" and tg.has_refs(mat.model_get(spec, tm, path)[0]) and not (through_ref and still_shared):
            # the reference slots inside the assigned element live in this side's own storage and were rebound to new
            # objects on this side only (an element inside a still shared referent is itself shared: both sides see
            # the new slots)
            unshared.append(list(path))
        if through_ref:
            labels.add("write_through_reference")
            if still_shared:
                # same referent: the other side sees it too
                _, nv = mat.model_get(spec, tm, path)
                try:
                    mat.model_set(spec, om, path, nv)
                except Exception:
                    pass
        g1 = sut(mat.walk, tgt, node)
        g2 = sut(mat.walk, other, node)
        for g, m, nm in ((g1, tm, side), (g2, om, oname)):
            if is_raised(g):
                return fail("read_raised_after_write", f"write to {side} {path}; reading {nm}: {g}", g.key, labels)
            d = tg.first_diff(spec, m, g)
            if d:
                clause = "write_shows_through" if nm != side else "write_lost"
                return fail(clause, f"write to {side} at {path} (shared buffer: {shared}, referent still shared: {still_shared}); {nm}: {d}", "through_ref" if through_ref else "direct", labels)
    # --- a second copy of the (meanwhile modified) original into the same destination: it must equal the original as
    #     it is NOW, and must not change the first copy
    if case["writes"] and spec["k"] != "unionref":
        copy2 = sut(lambda: node.cls(orig, **kw))
        if is_raised(copy2):
            return fail("second_copy_raised", f"{dest}: {copy2}", copy2.key, labels)
        g = sut(mat.walk, copy2, node)
        if is_raised(g):
            return fail("copy_read_raised", f"second copy, {dest}: {g}", g.key, labels)
        d = tg.first_diff(spec, mo, g)
        if d:
            return fail("second_copy_differs", f"{dest}: second copy vs the original's current value: {d}", "", labels)
        g1 = sut(mat.walk, copy, node)
        if is_raised(g1) or tg.first_diff(spec, mc, g1):
            return fail("second_copy_changed_first", f"{dest}: {g1 if is_raised(g1) else tg.first_diff(spec, mc, g1)}", "", labels)
        labels.add("second_copy")
    tl = labels
    nontrivial = ("ref_inside_array" in tl) or ("struct_2plus_dynamic_fields" in tl) or (tg.has_refs(spec) and "struct_nested" in tl)
    return Outcome(True, labels=sorted(labels), nontrivial=nontrivial)
