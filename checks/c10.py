"""C10 — assigning one element changes that element and nothing else."""

from hypothesis import strategies as st

from vlib.core import Outcome, fail, sut, is_raised, Finding
from vlib import typegen as tg
from vlib import mat, assign
from vlib import placement as pl
from checks import c01, c06

ID = "C10"
LEVEL = "exploration"
RULE = (
    "generated type expression x value x input forms x placement, a live neighbour object behind it, then a generated "
    "history (<=12 quick / <=40 thorough steps) of {set leaf, set whole nested struct/array of equal size from python "
    "data or ndarray, rebind reference to data, bind null, grow buffer}, each step reaching its target through the "
    "constructor handle chain, a freshly rebuilt view chain or a mix. The nested python value is the model; after "
    "every step: full re-read of the root equals the model, _size/_get_size/_shape/_strides/offset of the root and of "
    "every nested compound outside the assigned element are unchanged, reference slots that were not assigned denote "
    "the same offsets, the neighbour reads the same. Non-trivial = >=3 executed steps mixing handle and view access "
    "with at least one compound assignment or growth; distinct = distinct case JSON."
)
ASSUMPTIONS = c01.ASSUMPTIONS + ["assignments are fitting: same structure, strings no longer (in bytes) than the one replaced"]


def budget(tier):
    return {"examples": 800 if tier == "quick" else 8000}


def essential_labels(tier):
    return ["op:leaf", "op:compound_struct", "op:compound_array", "op:compound_nd_array", "op:rebind_to_data", "op:bind_null", "op:grow", "via:view", "via:mix", "op:leaf_through_reference"]


@st.composite
def cases(draw, tier):
    c = draw(c01.cases(tier))
    c["ops"] = draw(st.lists(assign.op_specs, min_size=1, max_size=40 if tier == "thorough" else 12))
    return c


def strategy(tier):
    return cases(tier)


def snapshot_attrs(obj, node, model):
    out = {}
    for path, cspec in mat.compound_paths(node.spec, model):
        o, _ = mat.obj_get(obj, node, path)
        if node.spec["k"] == "unionref" and not path:
            continue
        a = c06.attrs(o, cspec)
        a["_offset"] = int(o._offset)
        out[repr(path)] = (path, a)
    return out


def is_prefix(p, q):
    return len(p) <= len(q) and q[: len(p)] == p


def run_case(case):
    spec, value, p = case["type"], case["value"], case["placement"]
    tl = tg.type_labels(spec)
    node, obj, env, buf, tr, labels = c01.build(case)
    labels |= tl
    if is_raised(obj):
        return fail("construct_raised", f"{obj}", obj.key, labels)
    model = sut(mat.walk, obj, node)
    if is_raised(model):
        return fail("read_raised", f"{model}", model.key, labels)
    d = tg.first_diff(spec, mat.expected_value(spec, value), model)
    if d:
        return fail("initial_value", d, c01.diff_key(d), labels)
    # neighbour
    import xobjects as xo

    NT = xo.Int64[3]
    neigh = sut(lambda: NT([11, -22, 33], _buffer=obj._buffer))
    if is_raised(neigh):
        return fail("neighbour_construct_raised", f"{neigh}", neigh.key, labels)
    attrs0 = sut(snapshot_attrs, obj, node, model)
    if is_raised(attrs0):
        return fail("attribute_raised", f"{attrs0}", attrs0.key, labels)
    executed = 0
    vias = set()
    # a view that stays alive across the steps (rebuilt only when the storage is replaced by growth): what a caller holds
    # who obtained the object once through _from_buffer
    pview = sut(mat.view_of, obj) if spec["k"] != "unionref" else None
    storage = obj._buffer.buffer
    for si, op in enumerate(case["ops"]):
        # which element is assigned (for the exclusion of its own sub-tree)
        before_model_slots = None
        r = assign.apply_op(op, obj, node, model, labels)
        if isinstance(r, tuple) and r[0] == "skip":
            continue
        if is_raised(r):
            return fail("assignment_raised", f"step {si} {op['kind']} via {op['via']}: {r}", f"{op['kind']}|{r.key}", labels)
        executed += 1
        vias.add(op["via"])
        got = sut(mat.walk, obj, node)
        if is_raised(got):
            return fail("read_raised", f"after step {si} {op['kind']}: {got}", f"{op['kind']}|{got.key}", labels)
        d = tg.first_diff(spec, model, got)
        if d:
            return fail("value_after_assignment", f"after step {si} ({op['kind']} via {op['via']}): {d}", f"{op['kind']}|{c01.diff_key(d)}", labels)
        # view chain agrees too
        if hasattr(obj, "_buffer") and spec["k"] != "unionref":
            gv = sut(lambda: mat.walk(mat.view_of(obj), node))
            if is_raised(gv):
                return fail("view_read_raised", f"after step {si} {op['kind']}: {gv}", f"{op['kind']}|{gv.key}", labels)
            d = tg.first_diff(spec, model, gv)
            if d:
                return fail("view_value_after_assignment", f"after step {si} ({op['kind']}): {d}", f"{op['kind']}|{c01.diff_key(d)}", labels)
        if pview is not None and not is_raised(pview):
            # whatever happened in the step (update through another handle, growth of the buffer): the view taken at the
            # beginning still denotes the same object
            gp = sut(mat.walk, pview, node)
            if is_raised(gp):
                return fail("kept_view_read_raised", f"after step {si} ({op['kind']} via {op['via']}): {gp}", f"{op['kind']}|{gp.key}", labels)
            d = tg.first_diff(spec, model, gp)
            if d:
                return fail("kept_view_value", f"after step {si} ({op['kind']} via {op['via']}): a view taken before the history reads: {d}", f"{op['kind']}|{c01.diff_key(d)}", labels)
            labels.add("kept_view_checked")
            if op["kind"] == "grow" or obj._buffer.buffer is not storage:
                labels.add("kept_view_checked_after_storage_replacement")
                storage = obj._buffer.buffer
        attrs1 = sut(snapshot_attrs, obj, node, model)
        if is_raised(attrs1):
            return fail("attribute_raised", f"after step {si}: {attrs1}", attrs1.key, labels)
        for key, (path, a0) in attrs0.items():
            if key not in attrs1:
                continue
            a1 = attrs1[key][1]
            if a0 != a1:
                # legitimately different only below a reference that this step (or an earlier one) rebound
                if op["kind"] in ("rebind", "null", "compound") and any(s[0] == "d" for s in path):
                    continue
                # the assigned element itself may be re-laid out inside its own extent
                if r[1] is not None and is_prefix(r[1], path):
                    if len(path) > len(r[1]):
                        continue  # parts of the assigned element
                    if a0["_offset"] == a1["_offset"] and a1["_size"] <= a0["_size"] and a0.get("_shape") == a1.get("_shape"):
                        continue
                return fail("structure_changed", f"after step {si} ({op['kind']}): {path}: {a0} -> {a1}", op["kind"], labels)
        attrs0 = attrs1
        nv = sut(lambda: [int(neigh[i]) for i in range(3)])
        if is_raised(nv) or nv != [11, -22, 33]:
            return fail("neighbour_changed", f"after step {si} ({op['kind']}): {nv}", op["kind"], labels)
    nontrivial = executed >= 3 and len(vias) >= 2 and bool(labels & {"op:compound_struct", "op:compound_array", "op:grow"})
    return Outcome(True, labels=sorted(labels), nontrivial=nontrivial)
