"""C11 — operations that cannot be honoured fail without side effects."""

import math

import numpy as np
from hypothesis import strategies as st

from vlib.core import Outcome, fail, sut, is_raised
from vlib import typegen as tg
from vlib import mat, assign
from vlib import placement as pl
from checks import c01

ID = "C11"
LEVEL = "exploration"
RULE = (
    "generated type expression x value x input forms x placement; a live neighbour object is constructed directly "
    "behind the target; then ONE misuse drawn from the classes of the statement, parameterised over every element "
    "position of the object: index out of range on read or write (any axis, i >= extent, i < -extent, and "
    "-extent <= i < 0 for arrays of static items), whole-array update of wrong length, of a different shape with the "
    "same length, string longer than the capacity fixed at creation, same-length list whose items need more space, "
    "union reference given a non-member object / a dict / a wrong type name, a sequence handed to a scalar slot, a whole-struct "
    "update with an unknown field / from an object of another size, construction into a buffer of another "
    "context (with and without an explicit integer offset), construction at an explicit offset without buffer. Oracle: the operation raises AND every previously "
    "live object reads back the same value AND no byte inside any extent that was live before changes. For "
    "-extent <= i < 0 on arrays of dynamic items 'raises' or 'behaves as i+extent' are both accepted. Non-trivial = the "
    "misuse was applicable and the target has a live neighbour within 8 bytes behind its extent; distinct = distinct case JSON."
)
ASSUMPTIONS = c01.ASSUMPTIONS + [
    "the capacity of a string is the data space fixed when it was created (size word - 8, one byte reserved for the terminator)",
    "bytes in free space may change during a refused operation (scratch allocations); live extents may not",
]

KINDS = [
    "index_read",
    "index_write",
    "array_wrong_length",
    "array_wrong_shape",
    "string_too_large",
    "item_too_large",
    "struct_update_bad_field",
    "struct_from_other_size_xobject",
    "scalar_given_sequence",
    "union_non_member",
    "other_context",
    "offset_without_buffer",
]


def budget(tier):
    return {"examples": 3000 if tier == "quick" else 20000}


def essential_labels(tier):
    return ["applied:" + k for k in KINDS] + ["neighbour_within_8"]


@st.composite
def cases(draw, tier):
    c = draw(c01.cases(tier))
    if c["placement"]["buf"] == "none":
        c["placement"]["buf"] = "numpy"
    c["misuse"] = {
        "kind": draw(st.sampled_from(KINDS)),
        "li": draw(st.integers(0, 1000)),
        "axis": draw(st.integers(0, 2)),
        "far": draw(st.sampled_from([0, 0, 1, 5, 1000])),
        "neg": draw(st.sampled_from(["over", "over", "under", "wrap"])),
        "extra": draw(st.integers(1, 40)),
        "variant": draw(st.integers(0, 5)),
    }
    return c


def strategy(tier):
    return cases(tier)


def array_paths(spec, model):
    return [(p, s) for p, s in mat.compound_paths(spec, model) if s["k"] == "array"]


def grown_string(cur, extra):
    return cur + "x" * (8 + extra)


def live_extents(tr):
    return [(o, o + s) for o, s in tr.live if s > 0]


def run_case(case):
    spec, value, p, mu = case["type"], case["value"], case["placement"], case["misuse"]
    labels = set(tg.type_labels(spec))
    node, obj, env, buf, tr, lb2 = c01.build(case)
    labels |= lb2
    if is_raised(obj):
        return fail("construct_raised", f"{obj}", obj.key, labels)
    model = sut(mat.walk, obj, node)
    if is_raised(model):
        return fail("read_raised", f"{model}", model.key, labels)
    import xobjects as xo

    buf = obj._buffer
    if tr is None:
        tr = pl.Tracer(buf)
    NT = xo.Int64[3]
    neigh = sut(lambda: NT([11, -22, 33], _buffer=buf, _offset="packed"))
    if is_raised(neigh):
        return fail("neighbour_construct_raised", f"{neigh}", neigh.key, labels)
    end = int(obj._offset) + int(obj._size)
    if 0 <= int(neigh._offset) - end < 8:
        labels.add("neighbour_within_8")
    kind = mu["kind"]
    applied = False
    wrap_ok = None  # for negative in-range indices on arrays of dynamic items

    def prepare():
        """returns ('na',) when the misuse does not apply to this object, else a thunk performing the operation"""
        nonlocal applied, wrap_ok
        if kind in ("index_read", "index_write"):
            arrs = array_paths(spec, model)
            if not arrs:
                return ("na",)
            path, aspec = arrs[mu["li"] % len(arrs)]
            _, av = mat.model_get(spec, model, path)
            shape = av["shape"]
            ax = mu["axis"] % len(shape)
            idx = [min(mu["variant"], max(d - 1, 0)) for d in shape]
            if any(d == 0 for i, d in enumerate(shape) if i != ax):
                pass
            ext = shape[ax]
            if mu["neg"] == "over":
                idx[ax] = ext + mu["far"]
            elif mu["neg"] == "under":
                idx[ax] = -ext - 1 - mu["far"]
            else:
                if ext == 0:
                    idx[ax] = 0  # == extent: out of range
                else:
                    idx[ax] = -1 - (mu["far"] % ext)
                    if tg.is_dynamic(aspec["item"]):
                        wrap_ok = (path, [i if i >= 0 else i + d for i, d in zip(idx, shape)])
            arr, anode = mat.obj_get(obj, node, path)
            key = idx[0] if len(idx) == 1 else tuple(idx)
            applied = True
            labels.add("index_" + mu["neg"])
            if kind == "index_read":
                return lambda: arr[key]
            # a value that would be fine at a valid position
            if av["flat"]:
                iv = av["flat"][0]
            else:
                return lambda: arr.__setitem__(key, 0)
            inode = anode.kids[0]
            arg = assign.plain_arg(inode, iv)
            if wrap_ok is not None:
                wrap_ok = (wrap_ok[0], wrap_ok[1], iv)
            return lambda: arr.__setitem__(key, arg)
        if kind in ("array_wrong_length", "array_wrong_shape", "item_too_large"):
            allarrs = array_paths(spec, model)
            arrs = [(pp, s) for pp, s in allarrs if pp and pp[-1][0] != "d"]
            if kind == "array_wrong_length" and mu["far"] % 2 == 1:
                # a static-shape array that is the target of a Ref slot: data of another length assigned TO THE SLOT cannot
                # become a new target; the slot must keep denoting the old one
                viaref = [(pp[:-1], s) for pp, s in allarrs if len(pp) >= 2 and pp[-1][0] == "d" and all(d is not None for d in s["shape"])
                          and mat.node_at(node, model, pp[:-1])[0].spec["k"] == "ref"]
                if viaref:
                    arrs = viaref
                    labels.add("wrong_length_data_into_bound_ref_slot")
            if kind == "item_too_large":
                arrs = [(pp, s) for pp, s in arrs if s["item"]["k"] == "string"]
            if kind == "array_wrong_shape":
                arrs = [(pp, s) for pp, s in arrs if len(s["shape"]) >= 2]
            if not arrs:
                return ("na",)
            path, aspec = arrs[mu["li"] % len(arrs)]
            _, av = mat.model_get(spec, model, path)
            anode, _ = mat.node_at(node, model, path)
            if anode.spec["k"] == "ref":
                anode = anode.kids[0]
            shape = list(av["shape"])
            if kind == "array_wrong_length":
                ax = mu["axis"] % len(shape)
                new_shape = list(shape)
                new_shape[ax] = shape[ax] + 1 + mu["far"] % 3 if mu["variant"] % 2 == 0 or shape[ax] == 0 else shape[ax] - 1
                if math.prod(new_shape) == math.prod(shape):
                    new_shape[ax] = shape[ax] + 1
                    if math.prod(new_shape) == math.prod(shape):  # some other extent is 0
                        return ("na",)
                proto = av["flat"][0] if av["flat"] else None
                if proto is None:
                    proto = _default_item(aspec["item"])
                    if proto is None:
                        return ("na",)
                nv = {"shape": new_shape, "flat": [proto] * math.prod(new_shape)}
            elif kind == "array_wrong_shape":
                perm = None
                for i in range(len(shape)):
                    for j in range(i + 1, len(shape)):
                        if shape[i] != shape[j]:
                            perm = (i, j)
                if perm is None or math.prod(shape) == 0:
                    return ("na",)
                new_shape = list(shape)
                i, j = perm
                new_shape[i], new_shape[j] = shape[j], shape[i]
                nv = {"shape": new_shape, "flat": list(av["flat"])}
            else:  # same shape, one item needs more room than fixed at creation
                if not av["flat"]:
                    return ("na",)
                flat = list(av["flat"])
                k = mu["variant"] % len(flat)
                # unambiguously too large: longer than the whole array's extent
                aobj, _ = mat.obj_get(obj, node, path)
                flat[k] = "x" * (int(aobj._get_size()) + mu["extra"])
                nv = {"shape": shape, "flat": flat}
            if aspec["item"]["k"] == "scalar" and mu["variant"] % 2 == 1:
                arg = np.array(nv["flat"], dtype=mat.NP_DTYPES[aspec["item"]["t"]]).reshape(nv["shape"])
            elif not tg.nested_expressible(nv["shape"]):
                arg = np.empty(nv["shape"], dtype=object)
            else:
                arg = assign.plain_arg(anode, nv)
            if kind == "item_too_large" and mu["far"] % 2 == 1 and isinstance(arg, list):
                # the same value as an object of the very same array class (same shape, larger total size), in a buffer of its own
                arg = anode.cls(arg)
                labels.add("item_too_large_as_same_class_xobject")
            parent = mat.obj_get(obj, node, path[:-1])
            applied = True
            return lambda: mat.obj_set(parent[0], parent[1], path[-1:], arg)
        if kind == "string_too_large":
            leaves = [(pp, s) for pp, s in mat.leaf_paths(spec, model) if pp and s["k"] == "string"]
            if not leaves:
                return ("na",)
            path, _ = leaves[mu["li"] % len(leaves)]
            # capacity fixed at creation, read from the size word through the public size attribute
            parent = mat.obj_get(obj, node, path[:-1])
            st_ = path[-1]
            if st_[0] == "f":
                soff = parent[0]._get_offset(st_[1])
            else:
                soff = parent[0]._get_offset(st_[1][0] if len(st_[1]) == 1 else tuple(st_[1]))
            # space reserved for the string: its size word rounded up to the slot grid, minus the size word itself
            cap = (int(xo.Int64._from_buffer(buf, soff)) + 7) // 8 * 8 - 8
            new = "y" * (cap + mu["extra"] - 1)  # needs cap + extra bytes with the terminator
            applied = True
            return lambda: mat.obj_set(parent[0], parent[1], path[-1:], new)
        if kind == "union_non_member":
            slots = [(pp, s) for pp, s in mat.ref_slots(spec, model) if s["k"] == "unionref"]
            if not slots:
                return ("na",)
            path, uspec = slots[mu["li"] % len(slots)]
            parent = mat.obj_get(obj, node, path[:-1])
            v = mu["variant"] % 4
            if v == 0:
                Foreign = type("ForeignStruct", (xo.Struct,), {"q": xo.Int64})
                arg = Foreign(q=5, _buffer=buf)
                labels.add("union_foreign_object")
            elif v == 1:
                arg = {"q": 5}
                labels.add("union_plain_dict")
            elif v == 2:
                arg = ("NoSuchTypeName", {"q": 5})
                labels.add("union_wrong_type_name")
            else:
                # a class that IS a member of another union type of the process and has been stored there legally
                Foreign = type("OtherMember", (xo.Struct,), {"q": xo.Int64})
                OtherU = type("OtherUnion", (xo.UnionRef,), {"_reftypes": [Foreign]})
                arg = Foreign(q=5, _buffer=buf)
                OtherU(arg, _buffer=buf)
                labels.add("union_member_of_other_union")
            applied = True
            return lambda: mat.obj_set(parent[0], parent[1], path[-1:], arg)
        if kind == "struct_update_bad_field":
            # a whole-struct update (dict) in which fields declared EARLIER get new valid values and a later field
            # gets a value that cannot be honoured: all or nothing
            structs = [(pp, s) for pp, s in mat.compound_paths(spec, model) if s["k"] == "struct" and (not pp or pp[-1][0] != "d")]
            cands = []
            for pp, sspec in structs:
                _, sv = mat.model_get(spec, model, pp)
                for fi, (fn, ft) in enumerate(sspec["fields"]):
                    if ft["k"] == "string" or ft["k"] == "unionref" or (ft["k"] == "array" and (sv[fn]["flat"] or _default_item(ft["item"]) is not None)):
                        cands.append((pp, sspec, sv, fi))
            if not cands:
                return ("na",)
            # prefer candidates with a changeable earlier field
            good = [c for c in cands if any(ft["k"] in ("scalar", "string") for _, ft in c[1]["fields"][: c[3]])]
            pool_ = good or cands
            path, sspec, sv, fi = pool_[mu["li"] % len(pool_)]
            upd = {}
            for fn, ft in sspec["fields"][:fi]:
                if ft["k"] == "scalar":
                    cur = sv[fn]
                    upd[fn] = (1.0 if cur != 1.0 else 2.0) if ft["t"].startswith("Float") else (1 if cur != 1 else 2)
                    labels.add("earlier_field_changed")
                elif ft["k"] == "string" and sv[fn]:
                    upd[fn] = "".join("q" if ch != "q" else "p" for ch in sv[fn]) if all(ord(ch) < 128 for ch in sv[fn]) else sv[fn]
                    if upd[fn] != sv[fn]:
                        labels.add("earlier_field_changed")
            fn, ft = sspec["fields"][fi]
            sobj, snode = mat.obj_get(obj, node, path)
            if ft["k"] == "string":
                upd[fn] = "y" * (int(sobj._size) + mu["extra"])
                labels.add("bad_field:string")
            elif ft["k"] == "unionref":
                v = mu["variant"] % 3
                if v == 0:
                    Foreign = type("ForeignStruct", (xo.Struct,), {"q": xo.Int64})
                    upd[fn] = Foreign(q=5, _buffer=buf)
                elif v == 1:
                    upd[fn] = {"q": 5}
                else:
                    upd[fn] = ("NoSuchTypeName", {"q": 5})
                labels.add("bad_field:union")
            else:
                av = sv[fn]
                proto = av["flat"][0] if av["flat"] else _default_item(ft["item"])
                new_shape = list(av["shape"])
                new_shape[0] += 1
                if math.prod(new_shape) == math.prod(av["shape"]):
                    return ("na",)
                nvv = {"shape": new_shape, "flat": [proto] * math.prod(new_shape)}
                fnode = mat._kid(snode, ["f", fn])
                upd[fn] = assign.plain_arg(fnode, nvv) if tg.nested_expressible(new_shape) else np.empty(new_shape, dtype=object)
                labels.add("bad_field:array")
            applied = True
            if not path:
                return lambda: obj._update(upd)
            parent = mat.obj_get(obj, node, path[:-1])
            return lambda: mat.obj_set(parent[0], parent[1], path[-1:], upd)
        if kind == "struct_from_other_size_xobject":
            # a whole-struct assignment from an object of the very same class in which one dynamic array has another
            # length: the element's size is fixed, an array update of another length cannot be honoured
            import copy as _copy

            structs = [(pp, s_) for pp, s_ in mat.compound_paths(spec, model) if s_["k"] == "struct" and pp and pp[-1][0] != "d" and not tg.has_refs(s_)]
            cands = []
            for pp, sspec in structs:
                _, sv = mat.model_get(spec, model, pp)
                for fn, ft in sspec["fields"]:
                    if ft["k"] == "array" and ft["shape"][0] is None and (sv[fn]["flat"] or _default_item(ft["item"]) is not None):
                        cands.append((pp, sspec, sv, fn, ft))
            if not cands:
                return ("na",)
            path, sspec, sv, fn, ft = cands[mu["li"] % len(cands)]
            nv = _copy.deepcopy(sv)
            av = nv[fn]
            shp = list(av["shape"])
            rest = math.prod(shp[1:]) if len(shp) > 1 else 1
            if mu["variant"] % 2 == 0 and shp[0] >= 1:
                shp[0] -= 1
                av["flat"] = av["flat"][: shp[0] * rest]
                labels.add("other_size:shorter")
            else:
                proto = av["flat"][0] if av["flat"] else _default_item(ft["item"])
                shp[0] += 1
                av["flat"] = av["flat"] + [proto] * rest
                labels.add("other_size:longer")
            if rest == 0:
                return ("na",)
            av["shape"] = shp
            snode, _ = mat.node_at(node, model, path)
            src = snode.cls(assign.plain_arg(snode, mat.expected_value(sspec, nv)), _buffer=buf)
            tgt_, _ = mat.obj_get(obj, node, path)
            if int(src._size) == int(tgt_._size):
                return ("na",)  # slot rounding: the other length occupies the same space, the assignment can be honoured
            parent = mat.obj_get(obj, node, path[:-1])
            applied = True
            return lambda: mat.obj_set(parent[0], parent[1], path[-1:], src)
        if kind == "scalar_given_sequence":
            # a sequence where one number is expected: a struct field, an array item, or one item of a whole-array update
            # (placed late, so that a partial update would show)
            leaves = [(pp, s_) for pp, s_ in mat.leaf_paths(spec, model) if pp and s_["k"] == "scalar"]
            if not leaves:
                return ("na",)
            path, ls = leaves[mu["li"] % len(leaves)]
            seq = [1, 2] if mu["variant"] % 2 else np.array([3, 4, 5], dtype=mat.NP_DTYPES[ls["t"]])
            v = mu["variant"] % 3
            if v == 2 and path[-1][0] == "i":
                # whole 1-D array of scalars, the LAST item is a sequence
                apath = path[:-1]
                _, av = mat.model_get(spec, model, apath)
                if len(av["shape"]) == 1 and av["shape"][0] >= 2 and apath and apath[-1][0] != "d":
                    # the last item cannot be stored: a sequence, or something numpy refuses with another exception type
                    # (None -> TypeError, 2**70 -> OverflowError for integer kinds, a plain object -> TypeError)
                    isfloat = ls["t"].startswith("Float")
                    bad = [[1, 2], object() if isfloat else None, object() if isfloat else 2 ** 70][mu["far"] % 3]
                    new_items = [(1 if not isfloat else 1.5)] * (av["shape"][0] - 1) + [bad]
                    parent = mat.obj_get(obj, node, apath[:-1])
                    applied = True
                    labels.add("sequence_as_last_item_of_whole_update" if mu["far"] % 3 == 0 else "unstorable_last_item_of_whole_update")
                    return lambda: mat.obj_set(parent[0], parent[1], apath[-1:], new_items)
            parent = mat.obj_get(obj, node, path[:-1])
            applied = True
            labels.add("sequence_into_" + ("item" if path[-1][0] == "i" else "field"))
            return lambda: mat.obj_set(parent[0], parent[1], path[-1:], seq)
        if kind == "other_context":
            other = xo.ContextCpu()
            applied = True
            if mu["variant"] % 2:
                # the same contradiction together with an explicit integer offset (a region reserved for the purpose)
                hole = int(buf.allocate(end - int(obj._offset)))
                labels.add("other_context_with_explicit_offset")
                return lambda: mat.construct(node, value, mat.Forms(case["forms"]), mat.Env(buf, buf.context), _buffer=buf, _context=other, _offset=hole)
            return lambda: mat.construct(node, value, mat.Forms(case["forms"]), mat.Env(buf, buf.context), _buffer=buf, _context=other)
        if kind == "offset_without_buffer":
            applied = True
            if mu["variant"] % 2:
                return lambda: mat.construct(node, value, mat.Forms(case["forms"]), mat.Env(None, None), _offset=8 * mu["variant"])
            return lambda: mat.construct(node, value, mat.Forms(case["forms"]), mat.Env(None, buf.context), _offset=8 * mu["variant"], _context=buf.context)
        raise ValueError(kind)

    thunk = sut(prepare)
    if is_raised(thunk):
        return fail("prepare_raised", f"{kind}: {thunk}", thunk.key, labels)
    if isinstance(thunk, tuple):
        labels.add("not_applicable:" + kind)
        return Outcome(True, labels=sorted(labels), nontrivial=False)
    before = pl.snapshot(buf)
    live = live_extents(tr)
    if (int(obj._offset), end) not in live:
        live.append((int(obj._offset), end))
    r = sut(thunk)
    labels.add("applied:" + kind)
    raised = is_raised(r)
    # side effects
    got = sut(mat.walk, obj, node)
    nv = sut(lambda: [int(neigh[i]) for i in range(3)])
    after = pl.snapshot(buf)
    changed_live = [i for i in pl.diff_positions(before, after) if any(s <= i < e for s, e in live)]
    if not raised:
        if wrap_ok is not None:
            # accepted alternative: python-style wrap-around on arrays of dynamic items
            if kind == "index_read":
                return Outcome(True, labels=sorted(labels | {"wraparound_accepted"}), nontrivial="neighbour_within_8" in labels)
            # a write at the wrapped position: must have changed exactly that item
            path, widx, iv = wrap_ok
            mat.model_set(spec, model, path + [["i", widx]], iv)
            d = None if is_raised(got) else tg.first_diff(spec, model, got)
            if d is None and nv == [11, -22, 33]:
                return Outcome(True, labels=sorted(labels | {"wraparound_accepted"}), nontrivial="neighbour_within_8" in labels)
            return fail("wraparound_write_corrupts", f"{kind} {mu}: {d or nv or got}", kind, labels)
        if "wrong_length_data_into_bound_ref_slot" in labels:
            # data given to a reference slot BUILDS a new target; whether the constructor of the target type takes data of
            # another length is not among the operations the statement lists (an "update" of an existing array is).  Only
            # the refused case is judged (nothing may have changed, the slot still denotes its old target).
            return Outcome(True, labels=sorted(labels | {"rebind_accepted_by_constructor"}), nontrivial=False)
        return fail("accepted_silently", f"{kind} {mu}: the operation returned {_safe_repr(r)} instead of raising", kind, labels)
    if is_raised(got):
        return fail("raised_but_object_unreadable", f"{kind}: {r}; then {got}", kind, labels)
    d = tg.first_diff(spec, model, got)
    if d:
        return fail("raised_but_modified", f"{kind}: {r}; object changed: {d}", kind, labels)
    if is_raised(nv) or nv != [11, -22, 33]:
        return fail("raised_but_neighbour_modified", f"{kind}: {r}; neighbour {nv}", kind, labels)
    if changed_live:
        return fail("raised_but_live_bytes_changed", f"{kind}: {r}; bytes {changed_live[:8]} inside live extents changed", kind, labels)
    return Outcome(True, labels=sorted(labels), nontrivial=applied and "neighbour_within_8" in labels)


def _safe_repr(x):
    try:
        return repr(str(x)[:80])
    except Exception as e:  # the object may be unreadable by now
        return f"<{type(x).__name__}: repr raised {type(e).__name__}>"


def _default_item(ispec):
    k = ispec["k"]
    if k == "scalar":
        return 0
    if k == "string":
        return "s"
    if k in ("ref", "unionref"):
        return None
    return None
