"""C13 — CPU buffer copy primitives move exactly the requested bytes.

Oracle: a bytes reference model.  Every case fills the buffer(s) with a
position-dependent pattern, runs one primitive and compares the WHOLE buffer
(and the whole destination / source for the two-sided primitives) with
`before[:o] + payload + before[o+n:]`, the payload being computed
independently of the library.  Extracted copies must be independent of the
buffer, typed views must alias it.
"""

import itertools

import numpy as np
from hypothesis import strategies as st

from vlib.core import Outcome, fail, sut, is_raised

ID = "C13"
LEVEL = "exploration"
SHRINK_BUDGET = 300
RULE = (
    "case = buffer kind {BufferNumpy, BufferByteArray} x capacity x (offset, length) inside it x primitive "
    "{update_from_buffer(bytes | bytearray | memoryview | sliced memoryview | ndarray.data of itemsize 1/2/4/8 | array.array of 2/8-byte items | ctypes int32 array), "
    "update_from_native(source offset), copy_to_native(dest offset), to_native, to_bytearray, to_pointer_arg, "
    "to_nplike/to_nparray(10 dtypes x 1-3 dim shapes), update_from_nplike(source dtype x dest dtype with exact "
    "conversion x C/F/strided/reversed/N-D/0-length/non-native-byte-order layouts), update_from_xbuffer(other buffer same context | buffer "
    "of another context, either kind | same buffer, disjoint ranges), scalar _to_buffer/_from_buffer/"
    "_array_to_buffer/_array_from_buffer for the 10 numeric kinds, grow(n) with an allocated prefix and an optional freed hole, with and without a typed view taken before (every old byte carried over, capacity + n; a view handed out afterwards shows and aliases the NEW storage both ways)}. Buffers hold a position-dependent byte pattern; "
    "oracle: whole-buffer equality with the bytes reference model (exactly the requested bytes at the requested "
    "offsets, everything else untouched, capacity and storage length unchanged), extracted copies stay unchanged "
    "when the buffer is written afterwards and vice versa, typed views alias exactly the bytes they cover in both "
    "directions. The quick tier enumerates ALL (offset, length) pairs for every primitive up to a stated capacity "
    "on both buffer kinds (exhaustive small scope) and adds Hypothesis-generated cases at larger capacities. "
    "Non-trivial = length > 0 and the range does not start at offset 0; distinct = distinct case JSON."
)
ASSUMPTIONS = [
    "ranges lie inside the buffer (offset+length <= capacity); out-of-range requests are outside the statement",
    "buffers of one context are of one kind (ctx.new_buffer only hands out BufferNumpy); across contexts both kinds are mixed",
    "same-buffer update_from_xbuffer only with disjoint ranges (the statement speaks of 'another buffer'; the library copies objects inside one buffer this way)",
    "update_from_nplike conversions are generated exact (value representable in the destination dtype); NaN only for float->float of the same width",
    "ndarray.data sources of update_from_buffer are C-contiguous (a non-contiguous memoryview has no defined byte sequence)",
    "grow(n) carries over every byte of the old capacity, allocated or not (callers may place data at explicit offsets without allocating, as the repo's own buffer tests do)",
]
EXHAUSTIVE_SCOPE = {
    "quick": "every primitive x every (offset,length) with offset+length <= capacity, capacity in 0..10 and 16, both buffer kinds",
    "thorough": "every primitive x every (offset,length) with offset+length <= capacity, capacity in 0..24 and 32, both buffer kinds",
}

DTYPES = ["float64", "float32", "int64", "uint64", "int32", "uint32", "int16", "uint16", "int8", "uint8"]
XO_NAME = {d: d.capitalize().replace("Uint", "UInt") for d in DTYPES}


def pat(n, salt=0):
    return ((np.arange(n, dtype=np.int64) * 37 + 11 + salt * 101) & 0xFF).astype(np.uint8).tobytes()


def payload(n):
    return ((np.arange(n, dtype=np.int64) * 59 + 200) & 0xFF).astype(np.uint8).tobytes()


def make(kind, cap, ctx=None):
    from xobjects.context_cpu import BufferNumpy, BufferByteArray, ContextCpu

    ctx = ctx or ContextCpu()
    cls = BufferNumpy if kind == "numpy" else BufferByteArray
    return cls(capacity=cap, context=ctx)


def raw(buf):
    """bytes of the storage object itself (not through the primitives under test)"""
    b = buf.buffer
    if isinstance(b, bytearray):
        return bytes(b)
    return b.tobytes()


def fill(buf, data):
    b = buf.buffer
    if isinstance(b, bytearray):
        b[:] = data
        if len(b) != len(data):
            raise AssertionError("harness fill changed length")
    else:
        b[:] = np.frombuffer(data, dtype="int8")


def storage_ok(buf, cap):
    b = buf.buffer
    if len(b) != cap:
        return f"storage length {len(b)} != capacity {cap}"
    if buf.capacity != cap:
        return f"capacity attribute {buf.capacity} != {cap}"
    if isinstance(b, np.ndarray) and (b.dtype != np.int8 or b.ndim != 1):
        return f"storage became {b.dtype}{b.shape}"
    return None


def native(kind, data):
    if kind == "numpy":
        return np.frombuffer(bytes(data), dtype="int8").copy()
    return bytearray(data)


def native_bytes(x):
    if isinstance(x, (bytearray, bytes, memoryview)):
        return bytes(x)
    return np.asarray(x).tobytes()


def _splice(before, o, pay):
    return before[:o] + pay + before[o + len(pay):]


# --------------------------------------------------------------------------
# one case
# --------------------------------------------------------------------------


def run_case(case):
    kind, cap, prim, o, n = case["kind"], case["cap"], case["prim"], case["off"], case["n"]
    var = case.get("var")
    labels = {f"prim:{prim}", f"kind:{kind}"}
    if var is not None and not isinstance(var, (dict, list)):
        labels.add(f"{prim}:{var}")
    nontrivial = n > 0 and o > 0
    for lim in (4096, 65536):
        if n > lim:
            labels.add(f"length_over_{lim}")
            labels.add(f"{prim}:length_over_{lim}")
    if o + n > cap and prim != "grow":
        return Outcome(True, labels=["out_of_domain"])
    buf = make(kind, cap)
    before = pat(cap)
    fill(buf, before)

    def done(extra_labels=()):
        return Outcome(True, labels=sorted(labels | set(extra_labels)), nontrivial=nontrivial)

    def whole(expected, what):
        bad = storage_ok(buf, cap)
        if bad:
            return fail("storage_changed", f"{what}: {bad}", prim + ":" + str(var if not isinstance(var, dict) else ""), labels)
        got = raw(buf)
        if got != expected:
            pos = [i for i in range(cap) if got[i] != expected[i]]
            inside = all(o <= i < o + n for i in pos)
            return fail(
                "wrong_bytes_inside_range" if inside else "bytes_outside_range_touched",
                f"{what}: first differing positions {pos[:8]} (requested [{o},{o + n}))",
                prim + ":" + _vkey(var),
                labels,
            )
        return None

    pay = payload(n)

    if prim == "update_from_buffer":
        src = _pysource(var, pay)
        if src is None:
            return Outcome(True, labels=["skipped_itemsize"])
        r = sut(buf.update_from_buffer, o, src)
        if is_raised(r):
            return fail("raised", f"update_from_buffer({o}, <{var} of {n} bytes>): {r}", f"{prim}:{var}|{r.key}", labels)
        return whole(_splice(before, o, pay), f"update_from_buffer({o}, <{var} of {n} bytes>)") or done()

    if prim == "update_from_native":
        so, extra = case["so"], case["extra"]
        srcbytes = pat(so, 3) + pay + pat(extra, 5)
        src = native(kind, srcbytes)
        r = sut(buf.update_from_native, o, src, so, n)
        if is_raised(r):
            return fail("raised", f"update_from_native({o}, src, {so}, {n}): {r}", f"{prim}|{r.key}", labels)
        if native_bytes(src) != srcbytes:
            return fail("source_modified", f"update_from_native({o}, src, {so}, {n}) changed its source", prim, labels)
        return whole(_splice(before, o, pay), f"update_from_native({o}, src, {so}, {n})") or done()

    if prim == "copy_to_native":
        do, extra = case["so"], case["extra"]
        dbefore = pat(do + n + extra, 7)
        dest = native(kind, dbefore)
        r = sut(buf.copy_to_native, dest, do, o, n)
        if is_raised(r):
            return fail("raised", f"copy_to_native(dest, {do}, {o}, {n}): {r}", f"{prim}|{r.key}", labels)
        exp = _splice(dbefore, do, before[o:o + n])
        got = native_bytes(dest)
        if got != exp:
            return fail("dest_wrong", f"copy_to_native(dest, {do}, {o}, {n}): dest {got.hex()} expected {exp.hex()}", prim, labels)
        return whole(before, "copy_to_native must not change the buffer") or done()

    if prim in ("to_native", "to_bytearray", "to_pointer_arg"):
        r = sut(getattr(buf, prim), o, n)
        if is_raised(r):
            return fail("raised", f"{prim}({o}, {n}): {r}", f"{prim}|{r.key}", labels)
        got = native_bytes(r)
        if got != before[o:o + n]:
            return fail("extract_wrong", f"{prim}({o}, {n}) = {got.hex()} expected {before[o:o + n].hex()}", prim, labels)
        x = whole(before, f"{prim} must not change the buffer")
        if x:
            return x
        if prim == "to_bytearray" and not isinstance(r, bytearray):
            return fail("extract_type", f"to_bytearray returned {type(r).__name__}", prim, labels)
        if prim in ("to_native", "to_bytearray"):
            # independence, both directions
            fill(buf, pat(cap, 9))
            if native_bytes(r) != before[o:o + n]:
                return fail("copy_aliases_buffer", f"{prim}({o}, {n}): the extracted copy changed when the buffer was written", prim, labels)
            if n:
                if isinstance(r, np.ndarray):
                    r[:] = 0x11
                else:
                    r[:] = b"\x11" * n
                if raw(buf) != pat(cap, 9):
                    return fail("copy_aliases_buffer", f"{prim}({o}, {n}): writing the extracted copy changed the buffer", prim, labels)
        return done()

    if prim in ("to_nplike", "to_nparray"):
        dt, shape = var["dt"], tuple(var["shape"])
        r = sut(getattr(buf, prim), o, np.dtype(dt), shape)
        if is_raised(r):
            return fail("raised", f"{prim}({o}, {dt}, {shape}): {r}", f"{prim}|{r.key}", labels)
        exp = np.frombuffer(before[o:o + n], dtype=dt).reshape(shape)
        if tuple(r.shape) != shape or r.dtype != np.dtype(dt):
            return fail("view_type", f"{prim}({o}, {dt}, {shape}) gave {r.dtype}{r.shape}", prim, labels)
        if r.tobytes() != exp.tobytes():
            return fail("view_wrong", f"{prim}({o}, {dt}, {shape}) = {r.tobytes().hex()} expected {exp.tobytes().hex()}", prim, labels)
        x = whole(before, f"{prim} must not change the buffer")
        if x:
            return x
        labels.add(f"view_dtype:{dt}")
        labels.add(f"view_ndim:{len(shape)}")
        if n:
            # buffer -> view
            after = pat(cap, 13)
            fill(buf, after)
            exp2 = np.frombuffer(after[o:o + n], dtype=dt).reshape(shape)
            if r.tobytes() != exp2.tobytes():
                return fail("view_does_not_alias", f"{prim}({o}, {dt}, {shape}): buffer write not visible through the view", prim, labels)
            # view -> buffer: set last element's bytes
            idx = tuple(s - 1 for s in shape)
            one = np.frombuffer(bytes([0x3C] * np.dtype(dt).itemsize), dtype=dt)[0]
            try:
                r[idx] = one
            except ValueError as e:
                return fail("view_not_writable", f"{prim}({o}, {dt}, {shape}): {e}", prim, labels)
            isz = np.dtype(dt).itemsize
            exp3 = _splice(after, o + n - isz, bytes([0x3C] * isz))
            if raw(buf) != exp3:
                return fail("view_does_not_alias", f"{prim}({o}, {dt}, {shape}): write through the view landed elsewhere", prim, labels)
        return done()

    if prim == "update_from_nplike":
        src, exp_bytes, dd = _np_source(var)
        n = len(exp_bytes)
        if o + n > cap:
            return Outcome(True, labels=["out_of_domain"])
        nontrivial = n > 0 and o > 0
        src_copy = src.copy()
        r = sut(buf.update_from_nplike, o, np.dtype(dd), src)
        what = f"update_from_nplike({o}, {dd}, <{var['sd']}{list(src.shape)} {var['layout']}>)"
        labels.update({f"nplike_layout:{var['layout']}", f"nplike_conv:{'same' if var['sd'] == dd else 'convert'}", f"nplike_ndim:{src.ndim}"})
        if is_raised(r):
            return fail("raised", f"{what}: {r}", f"{prim}:{var['layout']}:{'same' if var['sd'] == dd else 'conv'}|{r.key}", labels)
        if src.tobytes() != src_copy.tobytes():
            return fail("source_modified", f"{what} changed its source", prim, labels)
        x = whole(_splice(before, o, exp_bytes), what)
        if x:
            x.sigkey = f"{prim}:{var['layout']}:{'same' if var['sd'] == dd else 'conv'}"
            return x
        return done()

    if prim == "update_from_xbuffer":
        so, extra, rel = case["so"], case["extra"], var["rel"]
        if rel == "same_buffer":
            # disjoint source range inside the same buffer: source [so, so+n) must not meet [o, o+n)
            if not (so + n <= o or o + n <= so) or so + n > cap:
                return Outcome(True, labels=["out_of_domain"])
            r = sut(buf.update_from_xbuffer, o, buf, so, n)
            if is_raised(r):
                return fail("raised", f"update_from_xbuffer({o}, self, {so}, {n}): {r}", f"{prim}:{rel}|{r.key}", labels)
            labels.add("xbuffer:same_buffer")
            return whole(_splice(before, o, before[so:so + n]), f"update_from_xbuffer({o}, self, {so}, {n})") or done()
        if rel == "same_context":
            src = make(kind, so + n + extra, buf.context)
        else:
            src = make(var["skind"], so + n + extra)
        sb = pat(so, 3) + pay + pat(extra, 5)
        fill(src, sb)
        r = sut(buf.update_from_xbuffer, o, src, so, n)
        what = f"update_from_xbuffer({o}, <{rel} {var.get('skind', kind)}>, {so}, {n})"
        if is_raised(r):
            return fail("raised", f"{what}: {r}", f"{prim}:{rel}|{r.key}", labels)
        if raw(src) != sb or storage_ok(src, so + n + extra):
            return fail("source_modified", f"{what} changed its source buffer", f"{prim}:{rel}", labels)
        labels.add(f"xbuffer:{rel}")
        return whole(_splice(before, o, pay), what) or done()

    if prim == "grow":
        # growth replaces the storage: every byte of the old capacity (allocated or not - callers may place data at
        # explicit offsets) is carried over, the buffer gets exactly n bytes larger
        a = min(o, cap)
        if a:
            buf.allocate(a)
        if case.get("so") and a > 1:
            buf.free(0, a // 2)
        fill(buf, before)
        v0 = None
        if cap > 0 and case.get("extra", 0) % 2 == 0:
            # a typed view handed out BEFORE the growth (kept alive by the caller)
            v0 = sut(buf.to_nplike, 0, "uint8", (cap,))
            if is_raised(v0):
                return fail("raised", f"to_nplike(0, uint8, ({cap},)): {v0}", f"grow_view|{v0.key}", labels)
            labels.add("grow:view_taken_before")
        r = sut(buf.grow, n)
        if is_raised(r):
            return fail("raised", f"grow({n}): {r}", f"grow|{r.key}", labels)
        if buf.capacity != cap + n or len(buf.buffer) != cap + n:
            return fail("storage_changed", f"grow({n}) on capacity {cap}: capacity {buf.capacity}, storage {len(buf.buffer)}", "grow", labels)
        got = raw(buf)[:cap]
        if got != before:
            pos = [i for i in range(cap) if got[i] != before[i]]
            return fail("bytes_lost_on_growth", f"grow({n}) with {a} bytes allocated{' and a freed hole' if case.get('so') else ''}: old bytes at {pos[:8]} not carried over", "grow", labels)
        # views handed out after the growth cover the bytes of the NEW storage, both ways
        tot = cap + n
        if tot > 0:
            v1 = sut(buf.to_nplike, 0, "uint8", (tot,))
            if is_raised(v1):
                return fail("raised", f"after grow({n}): to_nplike(0, uint8, ({tot},)): {v1}", f"grow_view|{v1.key}", labels)
            if v1.tobytes() != raw(buf)[:tot]:
                return fail("view_value", f"after grow({n}){' (a view was taken before)' if v0 is not None else ''}: the view of [0,{tot}) does not show the buffer's bytes", "grow", labels)
            k = (o * 7 + 3) % tot
            newb = (raw(buf)[k] + 1) % 256
            v1[k] = newb
            if raw(buf)[k] != newb:
                return fail("view_write_lost", f"after grow({n}){' (a view was taken before)' if v0 is not None else ''}: a write through the view at byte {k} is not in the buffer", "grow", labels)
            w = sut(buf.update_from_buffer, k, bytes([(newb + 1) % 256]))
            if is_raised(w):
                return fail("raised", f"after grow({n}): update_from_buffer({k}, 1 byte): {w}", f"grow|{w.key}", labels)
            if int(v1[k]) != (newb + 1) % 256:
                return fail("view_not_aliasing", f"after grow({n}){' (a view was taken before)' if v0 is not None else ''}: a byte written through update_from_buffer at {k} does not show in the view", "grow", labels)
        return Outcome(True, labels=sorted(labels), nontrivial=cap > 0 and n > 0)
    if prim == "scalar":
        import xobjects as xo

        dt = var["dt"]
        T = getattr(xo, XO_NAME[dt])
        isz = np.dtype(dt).itemsize
        cnt = var["count"]
        n = isz * cnt
        if o + n > cap:
            return Outcome(True, labels=["out_of_domain"])
        nontrivial = o > 0
        vals = np.frombuffer(payload(n), dtype=dt)
        labels.add(f"scalar:{dt}")
        if var["op"] == "to":
            v = vals[0]
            r = sut(T._to_buffer, buf, o, v)
            if is_raised(r):
                return fail("raised", f"{XO_NAME[dt]}._to_buffer(buf, {o}, v): {r}", f"scalar_to|{r.key}", labels)
            return whole(_splice(before, o, payload(n)[:isz]), f"{XO_NAME[dt]}._to_buffer(buf, {o}, v)") or done()
        if var["op"] == "from":
            r = sut(T._from_buffer, buf, o)
            if is_raised(r):
                return fail("raised", f"{XO_NAME[dt]}._from_buffer(buf, {o}): {r}", f"scalar_from|{r.key}", labels)
            exp = np.frombuffer(before[o:o + isz], dtype=dt)[0]
            if np.asarray(r).tobytes() != exp.tobytes() or np.asarray(r).dtype != np.dtype(dt):
                return fail("scalar_read", f"{XO_NAME[dt]}._from_buffer(buf, {o}) = {r!r} expected {exp!r}", "scalar_from", labels)
            return whole(before, "scalar read must not change the buffer") or done()
        if var["op"] == "array_to":
            r = sut(T._array_to_buffer, buf, o, vals.copy())
            if is_raised(r):
                return fail("raised", f"{XO_NAME[dt]}._array_to_buffer(buf, {o}, <{cnt}>): {r}", f"scalar_array_to|{r.key}", labels)
            return whole(_splice(before, o, payload(n)), f"{XO_NAME[dt]}._array_to_buffer(buf, {o}, <{cnt}>)") or done()
        if var["op"] == "array_from":
            r = sut(T._array_from_buffer, buf, o, cnt)
            if is_raised(r):
                return fail("raised", f"{XO_NAME[dt]}._array_from_buffer(buf, {o}, {cnt}): {r}", f"scalar_array_from|{r.key}", labels)
            exp = np.frombuffer(before[o:o + n], dtype=dt)
            if r.tobytes() != exp.tobytes() or r.shape != (cnt,):
                return fail("scalar_read", f"{XO_NAME[dt]}._array_from_buffer(buf, {o}, {cnt}) wrong", "scalar_array_from", labels)
            return whole(before, "scalar array read must not change the buffer") or done()
    raise ValueError(f"unknown primitive {prim}")


def _vkey(var):
    if isinstance(var, dict):
        return ",".join(f"{k}={v}" for k, v in sorted(var.items()) if k in ("rel", "layout", "op"))
    return str(var)


def _pysource(var, pay):
    n = len(pay)
    if var == "bytes":
        return pay
    if var == "bytearray":
        return bytearray(pay)
    if var == "memoryview":
        return memoryview(pay)
    if var == "memoryview_slice":
        return memoryview(b"\xEE\xEE\xEE" + pay + b"\xDD")[3:3 + n]
    if var.startswith("npdata"):
        isz = int(var[6:])
        if n % isz:
            return None
        dt = {1: "uint8", 2: "int16", 4: "float32", 8: "int64"}[isz]
        return np.frombuffer(pay, dtype=dt).copy().data
    if var.startswith("array_"):
        # other objects of the buffer protocol with items wider than a byte: array.array, ctypes arrays
        import array
        import ctypes

        code = var[6:]
        isz = {"h": 2, "d": 8, "c_int32": 4}[code]
        if n % isz:
            return None
        if code == "c_int32":
            return (ctypes.c_int32 * (n // isz)).from_buffer_copy(pay)
        a = array.array(code)
        a.frombytes(pay)
        return a
    raise ValueError(var)


PY_SOURCES = ["bytes", "bytearray", "memoryview", "memoryview_slice", "npdata1", "npdata2", "npdata4", "npdata8", "array_h", "array_d", "array_c_int32"]


def _np_source(var):
    """-> (source ndarray with the requested dtype/layout, expected bytes, dest dtype).
    var = {sd, dd, shape, layout, vals} ; vals are exactly representable in both dtypes"""
    sd, dd, shape, layout = var["sd"], var["dd"], tuple(var["shape"]), var["layout"]
    vals = var["vals"]
    cnt = int(np.prod(shape)) if len(shape) else 1
    if var.get("pool"):  # large sources: the drawn values are a pool repeated with a stride
        vals = [vals[(i * 3) % len(vals)] for i in range(cnt)]
    base = np.array([_val(v) for v in vals[:cnt]], dtype=sd).reshape(shape)
    exp = np.ascontiguousarray(base).astype(dd).tobytes()
    if layout == "C":
        src = np.ascontiguousarray(base)
    elif layout == "F":
        src = np.asfortranarray(base)
    elif layout == "strided":
        big = np.zeros([2 * s for s in shape], dtype=sd)
        sl = tuple(slice(0, 2 * s, 2) for s in shape)
        big[sl] = base
        src = big[sl]
    elif layout == "reversed":
        big = np.ascontiguousarray(base[tuple(slice(None, None, -1) for _ in shape)])
        src = big[tuple(slice(None, None, -1) for _ in shape)]
    elif layout == "transposed":
        src = np.ascontiguousarray(base.T).T
    elif layout == "swapped":
        src = base.astype(base.dtype.newbyteorder())  # same values, non-native byte order (as read from big-endian files)
        return src, exp, dd
    else:
        raise ValueError(layout)
    assert src.tobytes() == np.ascontiguousarray(base).tobytes() and src.shape == base.shape
    return src, exp, dd


def _val(v):
    if isinstance(v, str):
        return float(v)  # "nan", "inf", "-inf"
    return v


# --------------------------------------------------------------------------
# exhaustive small scope
# --------------------------------------------------------------------------


def _caps(tier):
    return list(range(0, 11)) + [16] if tier == "quick" else list(range(0, 25)) + [32]


def exhaustive_jobs(tier):
    jobs = []
    for kind in ("numpy", "bytearray"):
        for cap in _caps(tier):
            for fam in ("pyput", "native", "extract", "views", "xbuf", "scalar", "grow"):
                jobs.append({"kind": kind, "cap": cap, "fam": fam})
    return jobs


def _shapes_for(cnt):
    out = [(cnt,)]
    for a in range(1, cnt + 1):
        if cnt % a == 0 and a not in (1, cnt):
            out.append((a, cnt // a))
    if cnt == 8:
        out.append((2, 2, 2))
    if cnt == 0:
        out += [(0, 3), (2, 0)]
    if cnt >= 1:
        out.append((1, cnt))
    return out


def iter_job_cases(job):
    kind, cap, fam = job["kind"], job["cap"], job["fam"]
    for o in range(cap + 1):
        for n in range(cap - o + 1):
            base = {"kind": kind, "cap": cap, "off": o, "n": n}
            if fam == "pyput":
                for v in PY_SOURCES:
                    yield dict(base, prim="update_from_buffer", var=v)
            elif fam == "native":
                for so, extra in ((0, 0), (1, 0), (0, 2), (3, 1)):
                    yield dict(base, prim="update_from_native", so=so, extra=extra)
                    yield dict(base, prim="copy_to_native", so=so, extra=extra)
            elif fam == "extract":
                for p in ("to_native", "to_bytearray", "to_pointer_arg"):
                    yield dict(base, prim=p)
            elif fam == "views":
                for dt in DTYPES:
                    isz = np.dtype(dt).itemsize
                    if n % isz:
                        continue
                    for shp in _shapes_for(n // isz):
                        for p in ("to_nplike", "to_nparray"):
                            yield dict(base, prim=p, var={"dt": dt, "shape": list(shp)})
            elif fam == "xbuf":
                for so, extra in ((0, 0), (2, 1)):
                    yield dict(base, prim="update_from_xbuffer", so=so, extra=extra, var={"rel": "same_context"})
                    for sk in ("numpy", "bytearray"):
                        yield dict(base, prim="update_from_xbuffer", so=so, extra=extra, var={"rel": "other_context", "skind": sk})
                for so in range(cap - n + 1):
                    if so + n <= o or o + n <= so:
                        yield dict(base, prim="update_from_xbuffer", so=so, extra=0, var={"rel": "same_buffer"})
            elif fam == "grow":
                if n <= 9:
                    for hole in (0, 1):
                        for ex in (0, 1):
                            yield dict(base, prim="grow", so=hole, extra=ex)
            elif fam == "scalar":
                if n == 0:
                    for dt in DTYPES:
                        isz = np.dtype(dt).itemsize
                        for op in ("to", "from"):
                            yield dict(base, prim="scalar", var={"dt": dt, "op": op, "count": 1})
                        for cnt in range(0, (cap - o) // isz + 1):
                            for op in ("array_to", "array_from"):
                                yield dict(base, prim="scalar", var={"dt": dt, "op": op, "count": cnt})
    if fam == "views":
        # update_from_nplike: all dtype pairs, layouts, at every offset, small shapes
        for sd, dd in itertools.product(DTYPES, DTYPES):
            for shape, layout in (((2,), "C"), ((0,), "C"), ((1, 2), "F"), ((2, 1), "strided"), ((2,), "reversed"), ((2, 2), "F"), ((2, 2), "transposed"), ((2,), "swapped")):
                cnt = int(np.prod(shape))
                vals = [1, 100][: cnt] if cnt <= 2 else [0, 1, 7, 100]
                nb = cnt * np.dtype(dd).itemsize
                for o in range(0, cap - nb + 1):
                    yield {"kind": kind, "cap": cap, "off": o, "n": nb, "prim": "update_from_nplike", "var": {"sd": sd, "dd": dd, "shape": list(shape), "layout": layout, "vals": vals}}


def run_exhaustive_job(job):
    cases = 0
    nontriv = 0
    labels = {}
    failures = []
    seen = set()
    sample = None
    for case in iter_job_cases(job):
        out = run_case(case)
        if "out_of_domain" in out.labels or "skipped_itemsize" in out.labels:
            continue
        cases += 1
        if out.nontrivial:
            nontriv += 1
            if sample is None and case["off"] >= 3:
                sample = case
        for lb in out.labels:
            labels[lb] = labels.get(lb, 0) + 1
        if not out.ok and out.sig not in seen:
            seen.add(out.sig)
            failures.append({"case": case, "sig": out.sig, "clause": out.clause, "detail": out.detail})
    return {"cases": cases, "nontrivial": nontriv, "labels": labels, "failures": failures, "sample": sample}


# --------------------------------------------------------------------------
# generated part
# --------------------------------------------------------------------------


def _exact_vals(draw, sd, dd, cnt):
    """values exactly representable in both dtypes"""
    s, d = np.dtype(sd), np.dtype(dd)
    if s.kind == "f" and d.kind == "f":
        w = 32 if 4 in (s.itemsize, d.itemsize) else 64
        specials = ["inf", "-inf"] + (["nan"] if s.itemsize == d.itemsize else [])
        el = st.one_of(st.floats(width=w, allow_nan=False), st.sampled_from(specials), st.sampled_from([0.0, -0.0, 1.5]))
        vals = draw(st.lists(el, min_size=cnt, max_size=cnt))
        return [v if isinstance(v, str) or v == v and abs(v) != float("inf") else ("inf" if v > 0 else "-inf") for v in vals]
    lo, hi = -(2**63), 2**64 - 1
    for t in (s, d):
        if t.kind in "iu":
            info = np.iinfo(t)
            lo, hi = max(lo, int(info.min)), min(hi, int(info.max))
        else:
            m = 2**24 if t.itemsize == 4 else 2**53
            lo, hi = max(lo, -m), min(hi, m)
    el = st.one_of(st.integers(lo, hi), st.sampled_from([lo, hi, 0, min(1, hi)]))
    vals = draw(st.lists(el, min_size=cnt, max_size=cnt))
    if s.kind == "f" or d.kind == "f":
        return [float(v) if s.kind == "f" else v for v in vals]
    return vals


@st.composite
def cases(draw, tier):
    kind = draw(st.sampled_from(["numpy", "bytearray"]))
    big = 4096 if tier == "thorough" else 300
    prim = draw(st.sampled_from(
        ["update_from_nplike"] * 6 + ["update_from_buffer", "update_from_native", "copy_to_native", "to_native", "to_bytearray",
                                     "to_pointer_arg", "to_nplike", "to_nparray", "update_from_xbuffer", "update_from_xbuffer", "scalar", "grow"]))
    if prim == "update_from_nplike":
        sd = draw(st.sampled_from(DTYPES))
        dd = draw(st.sampled_from([sd, sd] + DTYPES))
        nd = draw(st.sampled_from([1, 1, 2, 2, 3]))
        shape = [draw(st.sampled_from([0, 1, 2, 3, 4, 5])) for _ in range(nd)]
        large = draw(st.integers(0, 9)) == 0
        if large:
            # thousands of items (around 4096 / 8192 / 16384 items, i.e. sources and destinations of 4 KiB .. 128 KiB)
            shape = draw(st.sampled_from([[4097], [4100], [8193], [16400], [2, 4099], [4099, 2]]))
        cnt = int(np.prod(shape))
        layout = draw(st.sampled_from(["C", "F", "strided", "reversed", "transposed", "swapped"]))
        vals = _exact_vals(draw, sd, dd, 7 if large else cnt)
        nb = cnt * np.dtype(dd).itemsize
        o = draw(st.one_of(st.integers(0, 16), st.integers(0, 200)))
        tail = draw(st.sampled_from([0, 0, 1, 8, 50] + ([70000] if large else [])))
        var = {"sd": sd, "dd": dd, "shape": shape, "layout": layout, "vals": vals}
        if large:
            var["pool"] = 1
        return {"kind": kind, "cap": o + nb + tail, "off": o, "n": nb, "prim": prim, "var": var}
    cap = draw(st.one_of(st.integers(0, 64), st.integers(0, big)))
    if prim != "grow" and draw(st.integers(0, 9)) == 0:
        # large transfers: lengths around 4 KiB, 64 KiB and 128 KiB (block sizes a staged copy would use), with room behind
        cap = draw(st.sampled_from([4096, 65536, 131072, 98304])) + draw(st.sampled_from([-1, 0, 1, 13, 300])) + draw(st.sampled_from([0, 0, 70000]))
    o = draw(st.integers(0, min(cap, 400)) if cap > 1000 else st.integers(0, cap))
    n = draw(st.one_of(st.integers(0, cap - o), st.just(cap - o), st.sampled_from([x for x in (65537, 65536, 4097, 100000, 131073) if x <= cap - o] or [cap - o])))
    case = {"kind": kind, "cap": cap, "off": o, "n": n, "prim": prim}
    if prim == "update_from_buffer":
        case["var"] = draw(st.sampled_from(PY_SOURCES))
        isz = int(case["var"][6:]) if case["var"].startswith("npdata") else 1
        case["n"] = n - n % isz
    elif prim in ("update_from_native", "copy_to_native"):
        case["so"] = draw(st.integers(0, 40))
        case["extra"] = draw(st.integers(0, 40))
    elif prim in ("to_nplike", "to_nparray"):
        dt = draw(st.sampled_from(DTYPES))
        isz = np.dtype(dt).itemsize
        cnt = min(n // isz, 240)
        shp = draw(st.sampled_from(_shapes_for(cnt)))
        case["n"] = cnt * isz
        case["var"] = {"dt": dt, "shape": list(shp)}
    elif prim == "update_from_xbuffer":
        rel = draw(st.sampled_from(["same_context", "other_context", "other_context", "same_buffer"]))
        case["so"] = draw(st.integers(0, 40))
        case["extra"] = draw(st.integers(0, 40))
        case["var"] = {"rel": rel}
        if rel == "other_context":
            case["var"]["skind"] = draw(st.sampled_from(["numpy", "bytearray"]))
        if rel == "same_buffer":
            # construct disjoint ranges: [so,so+n) before or after [o,o+n)
            n = min(n, cap // 2)
            o = draw(st.integers(0, cap - 2 * n))
            so = draw(st.integers(o + n, cap - n))
            if draw(st.booleans()):
                o, so = so, o
            case.update(off=o, n=n, so=so, extra=0)
    elif prim == "grow":
        case["so"] = draw(st.integers(0, 1))
        case["n"] = draw(st.integers(0, 300))
    elif prim == "scalar":
        dt = draw(st.sampled_from(DTYPES))
        isz = np.dtype(dt).itemsize
        op = draw(st.sampled_from(["to", "from", "array_to", "array_from"]))
        cnt = 1 if op in ("to", "from") else draw(st.integers(0, 12))
        o = draw(st.integers(0, 64))
        case.update(cap=o + cnt * isz + draw(st.sampled_from([0, 1, 9])), off=o, n=0, var={"dt": dt, "op": op, "count": cnt})
    return case


def strategy(tier):
    return cases(tier)


def budget(tier):
    return {"examples": 1500 if tier == "quick" else 20000}


def essential_labels(tier):
    return ["nplike_layout:F", "nplike_layout:strided", "nplike_conv:convert", "xbuffer:other_context", "xbuffer:same_buffer",
            "update_from_buffer:npdata8", "prim:to_nplike", "prim:scalar", "update_from_xbuffer:length_over_65536", "update_from_nplike:length_over_4096"]
