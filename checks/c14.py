"""C14 — every class API is emitted once, after all of its dependencies.

Case = dependency graph over classes of every kind + root list.  The harness
builds the real classes, keeps its own record of who depends on whom, and
judges `sort_classes`, the assembled source, cffi's acceptance of the
declarations, gcc's acceptance of the source and (for a sample) the real
`ctx.add_kernels(kernels={}, extra_classes=roots)`.
"""

import itertools
import os
import re

from hypothesis import strategies as st

from vlib.core import Outcome, fail, sut, is_raised
from vlib import cbuild

ID = "C14"
LEVEL = "exploration"
SHRINK_BUDGET = 150
KINDS = ["empty", "struct", "array", "unionref", "hybrid", "deponly", "ehybrid"]
RULE = (
    "case = dependency graph of n<=7 classes, each of kind {field-less Struct, Struct, named Array, UnionRef, "
    "HybridClass, field-less HybridClass, Struct with only declared dependencies}, structural edges (field of the class type, field Ref[class], "
    "field class[2], field of the generated base class of a named array, array item, array item Ref[class], union member) to earlier classes, declared (_depends_on) edges "
    "in any direction incl. self loops (the only way to close a cycle), and a non-empty root list in any order with "
    "duplicates; in one case of four the roots additionally hold two DIFFERENT classes of one name (an earlier version "
    "without dependencies first, the real class last: the last one is the one to use). The harness records the dependency relation while it builds the real classes. Oracle, acyclic closure: "
    "sort_classes(roots) lists every class of the transitive closure that has an API exactly once (by name) and after "
    "everything it depends on, nothing else; the source written by add_kernels(compile=False, save_source_as=...) "
    "defines each XOBJ_TYPEDEF_<name> once and no class name is used before its typedef; cffi accepts the concatenated "
    "declarations; gcc -fsyntax-only accepts the source; for a sample the real add_kernels(kernels={}, "
    "extra_classes=roots) builds, a kernel whose return type is the only mention of the first root builds, and the first root "
    "builds a kernel of its own through compile_class_kernels. Cycle reachable from the roots: an exception and no source file. The quick tier also "
    "enumerates ALL graphs on <=3 classes (kinds x edge kinds x root subsets/orders). Non-trivial = the closure has a "
    "diamond, a chain of depth >= 3, or a field-less class that something depends on; distinct = distinct case JSON."
)
ASSUMPTIONS = [
    "apart from the deliberate same-name override, classes have unique names inside one case (the library identifies "
    "classes by __name__); generated base array classes of two named arrays over one item type are distinct objects of one name and layout",
    "a HybridClass root is passed as its _XoStruct (what kernels carry as argument type); hybrid classes declare "
    "dependencies on HybridClass objects in their class body, plain structs on Struct classes",
    "array classes carry no declared dependencies",
]
EXHAUSTIVE_SCOPE = {
    "quick": "all graphs on <= 3 classes: 5 kinds per class x {no edge, structural edge, declared edge} per ordered pair (+ one optional back edge) x all non-empty root subsets in ascending and descending order",
    "thorough": "as quick, plus all graphs on 4 classes of kinds {field-less Struct, Struct, HybridClass} over {no edge, direct structural edge, declared edge} per ordered pair (+ one optional back edge closing a cycle) x all root subsets that contain the last class",
}

_counter = itertools.count()


# --------------------------------------------------------------------------
# building the classes; G[name] = set of names it depends on (harness' own record)
# --------------------------------------------------------------------------


def build_graph(case):
    import xobjects as xo

    uid = next(_counter)
    nodes = case["nodes"]
    cls = [None] * len(nodes)  # class object handed to sort_classes
    dress = [None] * len(nodes)  # HybridClass object (hybrid nodes)
    names = [None] * len(nodes)
    G = {}
    kinds = {}
    declared_late = []

    def api_name(j):
        return names[j]

    def field_type(j, mode, owner):
        """type object for a structural edge to node j; records the intermediate classes"""
        tj = cls[j]
        if mode == "ref" and nodes[j]["kind_eff"] != "unionref":
            rn = "Ref" + names[j]
            G.setdefault(rn, set()).add(names[j])
            kinds[rn] = "ref"
            G[owner].add(rn)
            return xo.Ref[tj]
        if mode == "base" and nodes[j]["kind_eff"] == "array":
            # the generated array class a named array class derives from, used as a type of its own
            b = tj.__bases__[0]
            bn = b.__name__
            G.setdefault(bn, set()).update(G[names[j]])
            kinds[bn] = "array_base"
            G[owner].add(bn)
            return b
        if mode == "arr":
            an = "Arr2" + names[j]
            G.setdefault(an, set()).add(names[j])
            kinds[an] = "anon_array"
            G[owner].add(an)
            return tj[2]
        G[owner].add(names[j])
        return tj

    for i, nd in enumerate(nodes):
        kind = nd["kind"]
        edges = [e for e in nd.get("edges", []) if 0 <= e[0] < i]
        if kind == "unionref":
            edges = [e for e in edges if nodes[e[0]]["kind_eff"] != "unionref"]
            seen = set()
            edges = [e for e in edges if not (e[0] in seen or seen.add(e[0]))]
            if not edges:
                kind = "struct"
        if kind == "array":
            edges = edges[:1]
        if kind in ("empty", "deponly", "ehybrid"):
            edges = []
        nd["kind_eff"] = kind
        prefix = {"empty": "E", "struct": "S", "array": "A", "unionref": "U", "hybrid": "H", "deponly": "D", "ehybrid": "G"}[kind]
        nm = f"{prefix}{i}"
        api = nm + "Data" if kind in ("hybrid", "ehybrid") else nm
        names[i] = api
        G[api] = set()
        kinds[api] = kind
        decl = [d for d in case.get("declared", []) if d[0] == i]
        if kind == "empty":
            cls[i] = type(nm, (xo.Struct,), {})
        elif kind == "deponly":
            cls[i] = type(nm, (xo.Struct,), {"x": xo.Float64})
        elif kind == "struct":
            data = {"x": xo.Int32}
            for fi, (j, mode) in enumerate(edges):
                data[f"f{fi}"] = field_type(j, mode, api)
            cls[i] = type(nm, (xo.Struct,), data)
        elif kind == "array":
            if edges:
                j, mode = edges[0]
                it = field_type(j, "ref" if mode == "ref" else "direct", api)
            else:
                it = xo.Float64
            cls[i] = type(nm, (it[3],), {})
        elif kind == "unionref":
            for j, _ in edges:
                G[api].add(names[j])
            body_ = {"_reftypes": [cls[j] for j, _ in edges]}
            if nd.get("meth"):
                # a method of the union (dispatched on the member): without extra arguments (meth == 1) or with one; every
                # member class brings its implementation in its own extra sources
                margs = [] if nd["meth"] == 1 else [xo.Arg(xo.Float64, name="s")]
                body_["_methods"] = [xo.Method(c_name=f"vf_m{i}", args=margs, ret=xo.Arg(xo.Float64))]
                for j, _ in edges:
                    mn_ = cls[j].__name__
                    cls[j]._extra_c_sources = list(getattr(cls[j], "_extra_c_sources", [])) + [
                        f"/*gpufun*/ double {mn_}_vf_m{i}({mn_} obj{', double s' if margs else ''}){{ (void) obj; return 1.0; }}"]
            cls[i] = type(nm, (xo.UnionRef,), body_)
        elif kind in ("hybrid", "ehybrid"):
            fields = {"x": xo.Int8} if kind == "hybrid" else {}  # ehybrid: a HybridClass without fields
            for fi, (j, mode) in enumerate(edges):
                if dress[j] is not None and mode == "direct":
                    fields[f"f{fi}"] = dress[j]  # a HybridClass as field type (converted by the metaclass)
                    G[api].add(names[j])
                else:
                    fields[f"f{fi}"] = field_type(j, mode, api)
            body = {"_xofields": fields}
            early = [d for d in decl if d[1] < i]
            if early:
                body["_depends_on"] = [dress[j] if dress[j] is not None else cls[j] for _, j in early]
                for _, j in early:
                    G[api].add(names[j])
                decl = [d for d in decl if d[1] >= i]
            H = type(nm, (xo.HybridClass,), body)
            dress[i] = H
            cls[i] = H._XoStruct
        if kind == "array":
            decl = []
        if kind == "unionref" and decl:
            cls[i]._depends_on = []  # a union class that declares dependencies (any class may)
        declared_late += decl
    for i, j in declared_late:
        if 0 <= j < len(nodes):
            cls[i]._depends_on.append(cls[j])
            G[names[i]].add(names[j])
    members = {names[i]: [c.__name__ for c in cls[i]._reftypes] for i, nd in enumerate(nodes) if nd["kind_eff"] == "unionref"}
    return cls, names, G, kinds, members


def closure(G, roots):
    seen = []
    stack = list(roots)
    while stack:
        x = stack.pop()
        if x in seen:
            continue
        seen.append(x)
        stack.extend(sorted(G.get(x, ())))
    return seen


def has_cycle(G, within):
    within = set(within)
    color = {}

    def dfs(u):
        color[u] = 1
        for v in G.get(u, ()):
            if v not in within:
                continue
            if color.get(v) == 1:
                return True
            if v not in color and dfs(v):
                return True
        color[u] = 2
        return False

    return any(u not in color and dfs(u) for u in sorted(within))


def depth_of(G, clo):
    memo = {}

    def d(u):
        if u not in memo:
            memo[u] = 0
            memo[u] = 1 + max([d(v) for v in G.get(u, ())] or [0])
        return memo[u]

    return max(d(u) for u in clo)


def has_diamond(G, clo):
    # some class reachable from another by two different first steps
    for u in clo:
        succ = sorted(G.get(u, ()))
        reach = [set(closure(G, [s])) for s in succ]
        for a in range(len(reach)):
            for b in range(a + 1, len(reach)):
                if reach[a] & reach[b]:
                    return True
    return False


# --------------------------------------------------------------------------


def run_case(case):
    import xobjects as xo
    from xobjects.context import sort_classes

    cbuild.quiet()
    cls, names, G, kinds, members = build_graph(case)
    n = len(cls)
    roots = [r % n for r in case["roots"]]
    root_cls = [cls[r] for r in roots]
    root_names = [names[r] for r in roots]
    labels = set()
    overridden = None
    sh = case.get("shadow")
    if sh is not None and case["nodes"][sh % n]["kind_eff"] == "struct" and G[names[sh % n]]:
        # two DIFFERENT classes of one name among the roots: the later one is the one to use (documented); the earlier
        # one here is a version of the class without its dependencies
        i_ = sh % n
        overridden = type(cls[i_].__name__, (xo.Struct,), {"x": xo.Int32})
        root_cls = [overridden] + root_cls + [cls[i_]]
        root_names = root_names + [names[i_]]
        labels.add("same_name_override")
    clo = closure(G, root_names)
    cyclic = has_cycle(G, clo)
    labels |= {f"n_{n}", f"closure_{min(len(clo), 8)}"}
    for nm in clo:
        labels.add("kind:" + kinds[nm])
    if any(nd_.get("meth") and nd_.get("kind_eff") == "unionref" and names[i_] in clo for i_, nd_ in enumerate(case["nodes"])):
        labels.add("union_with_method")
    if cyclic:
        labels.add("cyclic")
    if len(set(roots)) < len(roots):
        labels.add("duplicate_roots")
    empties_depended = [v for u in clo for v in G[u] if kinds[v] == "empty"]
    if empties_depended:
        labels.add("fieldless_dependency")
    nontrivial = False
    if not cyclic:
        dp = depth_of(G, clo)
        dia = has_diamond(G, clo)
        if dia:
            labels.add("diamond")
        if dp >= 3:
            labels.add("chain_depth_3plus")
        nontrivial = dia or dp >= 3 or bool(empties_depended)
    feat = "fieldless" if empties_depended else ("diamond" if "diamond" in labels else "")

    res = sut(sort_classes, list(root_cls))
    if cyclic:
        if not is_raised(res):
            return fail("cycle_not_reported", f"closure {clo} has a dependency cycle but sort_classes returned {[c.__name__ for c in res]}", "", labels)
        labels.add("cycle_exc:" + res.type)
        if case.get("build"):
            ctx = xo.ContextCpu()
            r2 = sut(ctx.add_kernels, kernels={}, extra_classes=list(root_cls), save_source_as="cyc.c", compile=False)
            if not is_raised(r2):
                return fail("cycle_not_reported", "add_kernels accepted classes with a dependency cycle", "add_kernels", labels)
            if os.path.exists("cyc.c"):
                os.remove("cyc.c")
                return fail("cycle_produced_source", "add_kernels raised but wrote a source file", "", labels)
        return Outcome(True, labels=sorted(labels), nontrivial=True)
    if is_raised(res):
        return fail("sort_raised", f"acyclic closure {clo}: {res}", res.key, labels)
    got = [c.__name__ for c in res]
    # a second sort of the same roots (a second build) gives the same answer: sorting must not alter the classes
    res2 = sut(sort_classes, list(root_cls))
    if is_raised(res2) or [c.__name__ for c in res2] != got:
        return fail("second_sort_differs", f"first {got}, second {res2 if is_raised(res2) else [c.__name__ for c in res2]}", "", labels)
    for i_, c_ in enumerate(cls):
        if names[i_] in members and [m.__name__ for m in c_._reftypes] != members[names[i_]]:
            return fail("sorting_altered_a_class", f"union {names[i_]}: members were {members[names[i_]]}, after sorting {[m.__name__ for m in c_._reftypes]}", "union_members", labels)
    if overridden is not None and any(c is overridden for c in res):
        return fail("overridden_class_used", f"two classes named {overridden.__name__} among the roots: the earlier one is in the result {got}", "", labels)
    # exactly once, nothing else
    for nm in clo:
        c = got.count(nm)
        if c == 0:
            return fail("class_missing", f"{nm} ({kinds[nm]}) is in the closure of the roots but not in {got}", kinds[nm], labels)
        if c > 1:
            return fail("class_emitted_twice", f"{nm} ({kinds[nm]}) appears {c} times in {got}", kinds[nm] + ("|" + feat if feat else ""), labels)
    extra = [g for g in got if g not in clo]
    if extra:
        return fail("class_outside_closure", f"{extra} are not dependencies of the roots {[names[r] for r in roots]}; result {got}", "", labels)
    pos = {nm: got.index(nm) for nm in clo}
    for u in clo:
        for v in G[u]:
            if pos[v] > pos[u]:
                return fail("dependency_after_user", f"{u} depends on {v} but the order is {got}", kinds[v] + "<-" + kinds[u], labels)
    # returned objects are the classes we built (last one wins for equal names; names are unique here)
    # ---- the source as add_kernels assembles it
    ctx = xo.ContextCpu(omp_num_threads=2) if case.get("omp") else xo.ContextCpu()
    fn = "api_src.c"
    if os.path.exists(fn):
        os.remove(fn)
    r = sut(ctx.add_kernels, kernels={}, extra_classes=list(root_cls), save_source_as=fn, compile=False)
    if is_raised(r):
        return fail("source_assembly_raised", f"{r}", r.key, labels)
    with open(fn) as f:
        src = f.read()
    os.remove(fn)
    for nm in clo:
        c = len(re.findall(rf"^#define XOBJ_TYPEDEF_{re.escape(nm)}\s*$", src, flags=re.M))
        if c != 1:
            return fail("source_typedef_count", f"XOBJ_TYPEDEF_{nm} defined {c} times in the assembled source", kinds[nm], labels)
        guard = src.index(f"#define XOBJ_TYPEDEF_{nm}")
        first = re.search(rf"(?<![A-Za-z0-9_]){re.escape(nm)}(?![A-Za-z0-9_])", src)
        if first is None or first.start() < guard:
            return fail("source_use_before_typedef", f"type name {nm} is used at {first.start() if first else None}, before its typedef block at {guard}", kinds[nm], labels)
    # ---- declarations as the context hands them to cffi
    import cffi

    cdefs = "\n".join(c._gen_c_decl({}) for c in res)
    ffi = cffi.FFI()
    try:
        ffi.cdef(cdefs)
    except Exception as e:  # cffi's verdict is the oracle here
        return fail("cffi_rejects_declarations", f"{type(e).__name__}: {str(e)[:300]}", feat, labels)
    ok, msg = cbuild.syntax_ok(src, "c", defines=(), workdir=".") if case.get("gcc", True) else (True, "")
    if not ok:
        return fail("gcc_rejects_source", msg[-600:], feat, labels)
    if case.get("build"):
        labels.add("real_build")
        ctx2 = xo.ContextCpu()
        r = sut(ctx2.add_kernels, kernels={}, extra_classes=list(root_cls), extra_compile_args=cbuild.FAST_FLAGS, extra_link_args=())
        if is_raised(r):
            return fail("add_kernels_failed", f"{r}", r.key, labels)
        # the first root reached ONLY through the return type of a kernel
        rc0 = root_cls[0]
        ctx3 = xo.ContextCpu()
        kn = "vf_ret_%d" % next(_counter)
        src = f"{rc0.__name__} {kn}(int8_t* p){{ return ({rc0.__name__}) p; }}"
        kern = xo.Kernel(args=[xo.Arg(xo.Int8, pointer=True, name="p")], ret=xo.Arg(rc0), c_name=kn)
        r = sut(ctx3.add_kernels, sources=[src], kernels={kn: kern}, extra_compile_args=cbuild.FAST_FLAGS, extra_link_args=())
        if is_raised(r):
            return fail("add_kernels_failed", f"class reachable only through a kernel's return type: {r}", "return_type|" + r.key, labels)
        labels.add("class_via_return_type")
        if isinstance(rc0, type) and issubclass(rc0, xo.Struct) and not rc0._kernels and not rc0._extra_c_sources and (len(case["nodes"]) + len(case["roots"])) % 2 == 0:
            # the class brings its own kernel (source in _extra_c_sources, no argument of the class type) and is built
            # through its compile_class_kernels: the class, its closure and its sources must be emitted all the same
            kn2 = "vf_ck_%d" % next(_counter)
            rc0._extra_c_sources = [f"int32_t {kn2}(int32_t a){{ {rc0.__name__} vf_unused = 0; (void) vf_unused; return a + 1; }}"]
            rc0._kernels = {kn2: xo.Kernel(args=[xo.Arg(xo.Int32, name="a")], ret=xo.Arg(xo.Int32), c_name=kn2)}
            ctx4 = xo.ContextCpu()
            try:
                r = sut(rc0.compile_class_kernels, ctx4)
                if is_raised(r):
                    return fail("add_kernels_failed", f"compile_class_kernels of {rc0.__name__}: {r}", "class_kernels|" + r.key, labels)
                got_ = sut(lambda: getattr(ctx4.kernels, kn2)(a=41))
                if is_raised(got_) or got_ != 42:
                    return fail("add_kernels_failed", f"kernel built by compile_class_kernels returned {got_}", "class_kernels_call", labels)
            finally:
                rc0._extra_c_sources = []
                rc0._kernels = {}
            labels.add("class_kernels_built")
    return Outcome(True, labels=sorted(labels), nontrivial=nontrivial)


# --------------------------------------------------------------------------
# generated graphs
# --------------------------------------------------------------------------


@st.composite
def cases(draw, tier):
    n = draw(st.integers(1, 7 if tier == "thorough" else 6))
    nodes = []
    for i in range(n):
        kind = draw(st.sampled_from(["empty", "struct", "struct", "array", "unionref", "hybrid", "hybrid", "deponly", "ehybrid"]))
        edges = []
        if i > 0:
            k = min(i, draw(st.sampled_from([0, 1, 1, 2, 2, 3])))
            targets = draw(st.lists(st.integers(0, i - 1), min_size=k, max_size=k))
            edges = [[t, draw(st.sampled_from(["direct", "base", "base", "ref", "arr"] if nodes[t]["kind"] == "array" else ["direct", "direct", "ref", "arr"]))] for t in targets]
        nodes.append({"kind": kind, "edges": edges})
        if kind == "unionref" and draw(st.integers(0, 1)):
            nodes[-1]["meth"] = draw(st.sampled_from([1, 1, 2]))
    declared = []
    nd = draw(st.sampled_from([0, 0, 1, 1, 2, 3]))
    for _ in range(nd):
        i = draw(st.integers(0, n - 1))
        if draw(st.integers(0, 4)) == 0:
            j = draw(st.integers(0, n - 1))  # any direction: may close a cycle
        else:
            j = draw(st.integers(0, i)) if i else 0
            if j == i and draw(st.integers(0, 3)):
                j = max(0, i - 1)
        declared.append([i, j])
    roots = draw(st.lists(st.integers(0, n - 1), min_size=1, max_size=min(n + 1, 4)))
    if draw(st.integers(0, 3)) > 0:
        roots = [n - 1] + roots
    shadow = draw(st.integers(0, n - 1)) if draw(st.integers(0, 3)) == 0 else None
    return {"nodes": nodes, "declared": declared, "roots": roots, "shadow": shadow, "build": draw(st.integers(0, 9)) == 0, "omp": draw(st.integers(0, 5)) == 0}


def strategy(tier):
    return cases(tier)


def budget(tier):
    return {"examples": 250 if tier == "quick" else 4000}


def essential_labels(tier):
    return ["cyclic", "diamond", "chain_depth_3plus", "fieldless_dependency", "kind:hybrid", "kind:ehybrid", "kind:unionref", "kind:ref", "kind:anon_array", "kind:array_base", "same_name_override", "real_build", "class_kernels_built", "duplicate_roots"]


# --------------------------------------------------------------------------
# exhaustive small scope
# --------------------------------------------------------------------------

EXH_KINDS = ["empty", "struct", "array", "unionref", "hybrid"]


def exhaustive_jobs(tier):
    nmax = 3 if tier == "quick" else 4
    jobs = []
    for n in range(1, nmax + 1):
        for kinds in itertools.product(EXH_KINDS if n <= 3 else ("empty", "struct", "hybrid"), repeat=n):
            jobs.append({"n": n, "kinds": list(kinds)})
    return jobs


def iter_job_cases(job):
    n, kinds = job["n"], job["kinds"]
    pairs = [(i, j) for i in range(n) for j in range(i)]
    alphabet = (0, 1, 2, 3) if n <= 3 else (0, 1, 3)  # none / direct / ref / declared (4 classes: without the Ref form)
    for marks in itertools.product(alphabet, repeat=len(pairs)):
        nodes = [{"kind": k, "edges": []} for k in kinds]
        declared = []
        for (i, j), m in zip(pairs, marks):
            if m == 1:
                nodes[i]["edges"].append([j, "direct"])
            elif m == 2:
                nodes[i]["edges"].append([j, "ref"])
            elif m == 3:
                declared.append([i, j])
        for back in ([None] + [(j, i) for (i, j) in pairs[:2]] + [(0, 0)]) if n <= 3 else [None, (0, n - 1)]:
            decl = declared + ([list(back)] if back else [])
            subsets = [s for r in range(1, n + 1) for s in itertools.combinations(range(n), r)]
            if n > 3:
                subsets = [s for s in subsets if n - 1 in s]
            for s in subsets:
                for roots in (list(s), list(reversed(s))) if len(s) > 1 else (list(s),):
                    yield {"nodes": [dict(x, edges=[list(e) for e in x["edges"]]) for x in nodes], "declared": [list(d) for d in decl], "roots": roots, "gcc": False}


def run_exhaustive_job(job):
    cases_n = 0
    nontriv = 0
    labels = {}
    failures = []
    seen = set()
    sample = None
    for case in iter_job_cases(job):
        out = run_case(case)
        cases_n += 1
        if out.nontrivial:
            nontriv += 1
            if sample is None and job["n"] >= 3:
                sample = case
        for lb in out.labels:
            labels[lb] = labels.get(lb, 0) + 1
        if not out.ok and out.sig not in seen:
            seen.add(out.sig)
            failures.append({"case": case, "sig": out.sig, "clause": out.clause, "detail": out.detail})
    return {"cases": cases_n, "nontrivial": nontriv, "labels": labels, "failures": failures, "sample": sample}
