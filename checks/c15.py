"""C15 — OpenCL and CUDA accessor source computes the same addresses as CPU.

The four specialisations are assembled exactly as the contexts assemble them
(the GPU ones transcribed from context_pyopencl.py / context_cupy.py, which
need no device for this step) and compared as token streams, the OpenCL text is
scanned for unqualified pointers, every text is handed to a host compiler, and
for a sample the host-compiled OpenCL and CUDA builds are *executed* on the
same object as the CPU build.
"""

import os
import re
import struct as _struct

from hypothesis import strategies as st

from vlib.core import Outcome, fail, sut, is_raised
from vlib import typegen as tg
from vlib import mat, cbuild
from vlib import placement as pl
from checks import c01

ID = "C15"
LEVEL = "exploration"
SHRINK_BUDGET = 40
TARGETS = ["cpu_serial", "cpu_openmp", "opencl", "cuda"]
QUALIFIERS = {"__global", "__kernel", "__global__", "__device__", "static", "inline", "restrict"}
RULE = (
    "case = generated type expression of the grammar (all kinds) x value x placement. The accessor source of the type "
    "and of everything it depends on is assembled for the four targets the way the contexts do it (cpu_serial / "
    "cpu_openmp through ContextCpu._build_sources; opencl = openclheader + class sources + specialize_source(..., "
    "'opencl'); cuda = cudaheader + class sources wrapped in extern \\\"C\\\" + specialize_source(..., 'cuda')). Oracle: "
    "(1) after deleting the closed set of target qualifiers {__global, __kernel, __global__, __device__, static, "
    "inline, restrict} the token streams of the class API are identical on all four targets; (2) in the OpenCL text "
    "every pointer declarator / pointer cast (a '*' that follows a type name) carries __global, and every handle typedef "
    "is '__global struct'; (3) gcc -std=c99 -fsyntax-only accepts the CPU texts and the OpenCL text with -D__global= "
    "-D__kernel=, g++ -fsyntax-only accepts the CUDA text with -D__global__= -D__device__=; (4) for a sample the "
    "OpenCL and CUDA texts are compiled on the host into shared objects and EVERY get/getp/len/typeid/member accessor "
    "is called with EVERY in-range index tuple on the same object as the CPU build: equal values, equal relative "
    "addresses. Non-trivial = the type has a dynamic array or a reference path; distinct = distinct case JSON."
)
ASSUMPTIONS = [
    "no OpenCL / CUDA compiler or runtime exists in the sandbox: acceptance is by gcc / g++ with the target keywords defined away, as the statement says",
    "the GPU assembly is transcribed from the contexts' build_kernels (header list + class sources + specialize_source); the contexts themselves need a device",
] + c01.ASSUMPTIONS[:2]


def budget(tier):
    return {"examples": 80 if tier == "quick" else 1200}


def essential_labels(tier):
    return ["executed", "array_dynamic_shape", "has_ref", "has_unionref", "array_of_dynamic_items", "leaf_1byte", "nd_dynamic_strides_from_header", "union_with_method"]


@st.composite
def cases(draw, tier):
    cfg = tg.Cfg(tier, max_leaves=8 if tier == "quick" else 12, roots=("struct", "struct", "struct", "array", "array", "unionref"))
    spec = draw(tg.type_specs(cfg))
    value = tg._draw_value(draw, spec, cfg)
    for s_, _ in tg.subspecs(spec):
        # one union in two declares a method (dispatch function generated per union, implementations in the members)
        if s_["k"] == "unionref" and s_["members"] and draw(st.integers(0, 1)) == 0:
            s_["meth"] = draw(st.integers(1, 2))
    return {"type": spec, "value": value, "exec": draw(st.integers(0, 2)) == 0, "offset": draw(st.sampled_from([0, 8, 24])), "cpu_first": draw(st.booleans()), "decl_first": draw(st.integers(0, 2)) == 0}


def strategy(tier):
    return cases(tier)


# --------------------------------------------------------------------------

_TOK = re.compile(r"[A-Za-z_][A-Za-z0-9_]*|0[xX][0-9a-fA-F]+|\d+\.?\d*[a-zA-Z]*|\S")
SCALAR_WORDS = {"char", "double", "float", "void", "int8_t", "uint8_t", "int16_t", "uint16_t", "int32_t", "uint32_t", "int64_t", "uint64_t", "int", "long", "short"}
TYPE_FILLERS = {"const", "struct", "unsigned", "signed", "volatile"}


def strip_comments(text):
    text = re.sub(r"/\*.*?\*/", " ", text, flags=re.S)
    return re.sub(r"//[^\n]*", " ", text)


def api_part(text):
    i = text.find("#ifndef XOBJ_TYPEDEF_")
    return text[i:] if i >= 0 else ""


def tokens(text):
    return _TOK.findall(strip_comments(text))


def assemble(classes, target):
    """the specialised source of the class APIs for one target, assembled like the contexts do"""
    import xobjects as xo
    from xobjects.context import sources_from_classes, _concatenate_sources
    from xobjects.specialize_source import specialize_source

    if target in ("cpu_serial", "cpu_openmp"):
        ctx = xo.ContextCpu() if target == "cpu_serial" else xo.ContextCpu(omp_num_threads=2)
        _, spec_src = ctx._build_sources(classes=list(classes), extra_headers=())
        return spec_src
    cls_sources = sources_from_classes(classes)
    if target == "opencl":
        from xobjects.context_pyopencl import openclheader

        source, folders = _concatenate_sources(list(openclheader) + cls_sources, ())
        return specialize_source(source, specialize_for="opencl", search_in_folders=list(folders))
    from xobjects.context_cupy import cudaheader

    source, folders = _concatenate_sources(list(cudaheader) + cls_sources, ())
    source = "\n".join(['extern "C"{', source, "}"])
    return specialize_source(source, specialize_for="cuda", search_in_folders=list(folders))


def unqualified_pointers(ocl_api_text, struct_tags):
    """(token index, context) of pointer declarators / casts without __global in the OpenCL text"""
    toks = tokens(ocl_api_text)
    typewords = SCALAR_WORDS | struct_tags
    bad = []
    for i, t in enumerate(toks):
        if t != "*" or i == 0:
            continue
        if toks[i - 1] not in typewords:
            continue  # dereference or multiplication
        j = i - 1
        seen_global = False
        while j >= 0 and (toks[j] in typewords or toks[j] in TYPE_FILLERS or toks[j] == "__global"):
            if toks[j] == "__global":
                seen_global = True
            j -= 1
        if not seen_global:
            bad.append((i, " ".join(toks[max(0, i - 6): i + 4])))
    return bad


_n = [0]


def _bits(kind, v):
    if kind == "Float64":
        return _struct.pack("<d", float(v))
    if kind == "Float32":
        return _struct.pack("<f", float(v))
    return int(v)


def run_case(case):
    import xobjects as xo
    from xobjects.context import sort_classes

    cbuild.quiet()
    spec, value = case["type"], case["value"]
    labels = set(tg.type_labels(spec))
    node = mat.materialise(spec)
    classes = sut(sort_classes, [node.cls])
    if is_raised(classes):
        return fail("sort_classes_raised", f"{classes}", classes.key, labels)
    pre_ctx = pre_ks = None
    if case.get("decl_first"):
        # history: the plain (marker-less) declarations are asked for first, as a CPU context does for cffi
        labels.add("plain_declarations_before_sources")
        for c in classes:
            r = sut(c._gen_c_decl, {})
            if is_raised(r):
                return fail("declarations_raised", f"{c.__name__}: {r}", r.key, labels)
    if case.get("exec") or case.get("cpu_first"):
        # history: the classes are first used on a CPU context (which asks them for their plain declarations and
        # compiles their API); the GPU sources generated afterwards in the same process must be unaffected
        labels.add("cpu_build_before_gpu_sources")
        pre_ctx = xo.ContextCpu()
        pre_ks = sut(cbuild.compile_api, node.cls, pre_ctx)
        if is_raised(pre_ks):
            return fail("api_build_failed", f"{pre_ks}", pre_ks.key, labels)
    texts = {}
    for t in TARGETS:
        r = sut(assemble, classes, t)
        if is_raised(r):
            return fail("assembly_raised", f"{t}: {r}", f"{t}|{r.key}", labels)
        texts[t] = r
    if any(s["k"] == "scalar" and s["t"] in ("Int8", "UInt8") for s, _ in tg.subspecs(spec)):
        labels.add("leaf_1byte")
    if any(s.get("meth") for s, _ in tg.subspecs(spec)):
        labels.add("union_with_method")
    for s, _ in tg.subspecs(spec):
        if s["k"] == "array" and len(s["shape"]) > 1 and any(d is None for d in s["shape"]):
            labels.add("nd_dynamic_strides_from_header")
    # ---- (1) same computation
    streams = {}
    for t in TARGETS:
        api = api_part(texts[t])
        if not api:
            return fail("no_api_in_source", f"{t}: no XOBJ_TYPEDEF block in the assembled source", t, labels)
        toks = [x for x in tokens(api) if x not in QUALIFIERS]
        if t == "cuda" and toks and toks[-1] == "}":
            toks = toks[:-1]  # closing brace of extern "C"{
        streams[t] = toks
    ref = streams["cpu_serial"]
    for t in TARGETS[1:]:
        if streams[t] != ref:
            k = next((i for i, (a, b) in enumerate(zip(ref, streams[t])) if a != b), min(len(ref), len(streams[t])))
            return fail("token_streams_differ", f"cpu_serial vs {t} at token {k}: ...{' '.join(ref[max(0, k - 8): k + 6])}... vs ...{' '.join(streams[t][max(0, k - 8): k + 6])}...", t, labels)
    # ---- (2) OpenCL address space
    ocl = api_part(texts["opencl"])
    tags = set(re.findall(r"struct\s+([A-Za-z_][A-Za-z0-9_]*)", strip_comments(ocl)))
    bad = unqualified_pointers(ocl, tags)
    if bad:
        ctxs = "; ".join(c for _, c in bad[:3])
        key = "1byte" if any(re.search(r"\bu?int8_t \*", c) for _, c in bad) else "pointer"
        return fail("opencl_pointer_without_global", f"{len(bad)} pointer(s) into object memory without __global: {ctxs}", key, labels)
    for m in re.finditer(r"typedef([^;]*)\*\s*([A-Za-z_][A-Za-z0-9_]*)\s*;", strip_comments(ocl)):
        if "__global" not in m.group(1):
            return fail("opencl_handle_without_global", f"typedef of {m.group(2)}: '{m.group(0).strip()}'", "", labels)
    # ---- (3) acceptance by a host compiler
    for t, lang, defs in (("cpu_serial", "c", ()), ("cpu_openmp", "c", ()), ("opencl", "c", ("__global=", "__kernel=")), ("cuda", "c++", ("__global__=", "__device__="))):
        ok, msg = cbuild.syntax_ok(texts[t], lang, defines=defs, workdir=".")
        if not ok:
            return fail("host_compiler_rejects", f"{t}: {msg[-500:]}", t, labels)
    nontrivial = bool(labels & {"array_dynamic_shape", "array_of_dynamic_items", "has_ref", "has_unionref"})
    if not case.get("exec"):
        return Outcome(True, labels=sorted(labels), nontrivial=nontrivial)
    # ---- (4) execution of the host-compiled GPU texts next to the CPU build
    labels.add("executed")
    ctx = pre_ctx
    buf = ctx.new_buffer(64)
    if case.get("offset"):
        buf.allocate(case["offset"])
    obj = sut(mat.construct, node, value, mat.Forms([0]), mat.Env(buf, ctx), _buffer=buf)
    if is_raised(obj):
        return fail("construct_raised", f"{obj}", obj.key, labels)
    model = sut(mat.walk, obj, node)
    if is_raised(model):
        return fail("read_raised", f"{model}", model.key, labels)
    ks = pre_ks
    import cffi

    cdefs = "\n".join(c._gen_c_decl({}) for c in classes)
    libs = {}
    for t, cc, ext, defs in (("opencl", "gcc", ".c", ["-std=c99", "-D__global=", "-D__kernel="]), ("cuda", "g++", ".cpp", ["-D__global__=", "-D__device__="])):
        _n[0] += 1
        src = f"gpu_{t}_{_n[0]}{ext}"
        so = os.path.abspath(f"gpu_{t}_{os.getpid()}_{_n[0]}.so")  # a fresh name: dlopen caches by path
        with open(src, "w") as f:
            f.write(texts[t])
        r = cbuild.run([cc, "-O0", "-w", "-shared", "-fPIC"] + defs + ["-o", so, src])
        if r.returncode != 0:
            return fail("host_compiler_rejects", f"{t} (shared object): {r.stdout[-500:]}", t, labels)
        ffi = cffi.FFI()
        ffi.cdef(cdefs)
        libs[t] = (ffi, ffi.dlopen(so))
    base = cbuild.base_address(obj)
    root = node.cls.__name__
    ncalls = 0
    for steps, last in cbuild.api_paths(spec):
        names = cbuild.kernel_names(root, steps, last)
        for idxs, cpath, sub in cbuild.instances(spec, model, steps):
            args = {"obj": obj}
            for i, v in enumerate(idxs):
                args[f"i{i}"] = v
            for act, nm in names.items():
                if act == "set" or (act == "member" and sub is None):
                    continue
                kern = ctx.kernels[nm]
                cpu = sut(lambda: kern(**args))
                if is_raised(cpu):
                    return fail("cpu_call_raised", f"{nm}{idxs}: {cpu}", cpu.key, labels)
                cpu = cbuild.to_int(kern, cpu)
                for t, (ffi, lib) in libs.items():
                    fn = sut(getattr, lib, nm)
                    if is_raised(fn):
                        return fail("gpu_symbol_missing", f"{t}: {nm}: {fn}", t, labels)
                    g = sut(lambda: fn(ffi.cast(root, base), *idxs))
                    if is_raised(g):
                        return fail("gpu_call_raised", f"{t}: {nm}{idxs}: {g}", f"{t}|{g.key}", labels)
                    if isinstance(g, ffi.CData):
                        g = int(ffi.cast("uintptr_t", g))
                    if act == "get":
                        same = _bits(last["t"], g) == _bits(last["t"], cpu)
                    else:
                        same = int(g) == int(cpu)
                    if not same:
                        return fail("target_results_differ", f"{nm}{idxs}: cpu {cpu}, {t} {g} (addresses relative to the object: {int(cpu) - base if act in ('getp', 'member') else ''})", f"{t}|{act}", labels)
                    ncalls += 1
    labels.add(f"gpu_calls_{min(ncalls // 20 * 20, 100)}+")
    for t, (ffi, lib) in libs.items():
        ffi.dlclose(lib)
    for fn_ in os.listdir("."):
        if fn_.startswith("gpu_"):
            os.remove(fn_)
    return Outcome(True, labels=sorted(labels), nontrivial=nontrivial)
