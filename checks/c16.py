"""C16 — vectorised kernel blocks run once per index on every target.

Kernel sources are generated from the annotation vocabulary; the CPU targets
run through ctx.add_kernels on serial and OpenMP contexts, the OpenCL and CUDA
expansions are compiled on the host with a prelude that supplies
get_global_id / blockDim / blockIdx / threadIdx and are driven with the launch
geometry that the real KernelPyopencl / KernelCupy call code computes (their
device function is replaced by a recorder).
"""

import os
import re

import numpy as np
from hypothesis import strategies as st

from vlib.core import Outcome, fail, sut, is_raised
from vlib import cbuild

ID = "C16"
LEVEL = "exploration"
SHRINK_BUDGET = 25
TARGETS = ["cpu_serial", "cpu_openmp", "opencl", "cuda"]
PAD = 3
SENT = -777.25
RULE = (
    "case = generated kernel source: 1-3 kernels, each with 1-3 //vectorize_over ... //end_vectorize blocks (both "
    "surface forms, distinct loop variables), /*gpukern*/, /*gpufun*/ helper functions, /*gpuglmem*/ and /*restrict*/ "
    "placeholders, lines restricted with //only_for_context <subset of targets> inside and outside blocks (sometimes behind an ordinary // remark on the same line), "
    "//include_file <f> for_context <subset> with generated files (which may carry a context-restricted line of their own), "
    "optionally annotated text handed over through extra_headers=, optionally one source text listed twice (position matters), unique unannotated filler lines; x n in {0,1,2,3, "
    "block-1, block, block+1, 2*block+3} x CUDA block size in {1,2,32,256}. Block bodies are index-local and "
    "instrumented: cnt[i] += 1; y[i] = 2*x[i] + K (+ terms that are active only when a context-restricted line / an "
    "included file is active for the target), on arrays with canary slots behind n. Oracle: on ContextCpu() and "
    "ContextCpu(omp_num_threads=2) and ContextCpu(omp_num_threads=1) (ctx.add_kernels, ctx.kernels.<k>) and for the opencl / cuda expansions compiled "
    "on the host and driven by the launch geometry recorded from the real KernelPyopencl.__call__ / "
    "KernelCupy.__call__: every index 0..n-1 of every block is executed exactly once, canaries untouched, y equals "
    "the per-target reference for every n including 0; structurally: context-restricted lines are active exactly on "
    "the named targets, included files are spliced exactly for the named targets, every filler line appears exactly "
    "once, unchanged and in order, in each specialisation. Non-trivial = n not a multiple of the block, or >= 2 blocks "
    "in a kernel, or a context-restricted line inside a block; distinct = distinct case JSON."
)
ASSUMPTIONS = [
    "block bodies are data parallel (they read and write only element i of each array), the only use the annotation is documented for",
    "no OpenCL / CUDA runtime: the GPU expansions are executed on the host by simulating the launch loop; the geometry (global size n; grid = ceil(n/block) blocks of `block` threads) is taken from the contexts' own call code with the device function replaced by a recorder",
    "OpenMP context with 2 threads; a data race that only shows under a particular schedule could be missed, systematic double execution cannot",
]
_n = [0]


def budget(tier):
    return {"examples": 40 if tier == "quick" else 600}


def essential_labels(tier):
    return ["n_0", "n_not_multiple_of_block", "two_blocks_in_kernel", "restricted_line_in_block", "include_file", "helper_function", "form:decl", "form:for", "kernels_2plus", "no_vectorised_block_in_source", "annotated_extra_header", "restricted_line_in_included_file", "blocks_with_different_bounds", "remark_before_annotation", "same_source_text_listed_twice", "limit_given_as_expression", "n_over_4096"]


@st.composite
def cases(draw, tier):
    block = draw(st.sampled_from([1, 2, 32, 256]))
    # 4097 / 5003: beyond 4096 work items and not a multiple of 64 (launch geometries that round large sizes show there)
    n = draw(st.sampled_from([0, 1, 2, 3, max(block - 1, 0), block, block + 1, 2 * block + 3] * 2 + [4097, 5003]))
    kernels = []
    fill = 0
    for j in range(draw(st.integers(1, 3))):
        blocks = []
        for b in range(draw(st.sampled_from([1, 1, 2, 2, 3]))):
            restricted = None
            if draw(st.integers(0, 1)):
                restricted = {"targets": draw(st.lists(st.sampled_from(TARGETS), min_size=1, max_size=3, unique=True)), "c": draw(st.integers(1, 50)) * 100,
                              "remark": draw(st.integers(0, 2)) == 0}
            blocks.append({"form": draw(st.sampled_from(["decl", "for"])), "k": draw(st.integers(-5, 5)), "restricted": restricted,
                           # the limit is a name or a blank-free C expression (what the annotation's two-word syntax admits)
                           "bound": draw(st.sampled_from(["n", "n", "n", "n2", "n2", "n2*0+n", "2*n-n", "n-1", "(n+n2)/2"])),
                           "helper": draw(st.booleans()), "fillers": draw(st.integers(0, 2))})
        inc = None
        if draw(st.integers(0, 2)) == 0:
            inc = {"targets": draw(st.lists(st.sampled_from(TARGETS), min_size=0, max_size=4, unique=True)), "bias": draw(st.integers(1, 9))}
            if draw(st.integers(0, 2)) == 0:
                # the same file named by a second directive with another context list
                inc["targets2"] = draw(st.lists(st.sampled_from(TARGETS), min_size=1, max_size=4, unique=True))
            if draw(st.integers(0, 1)) == 0:
                # the included file carries a context-restricted line of its own
                inc["line"] = {"targets": draw(st.lists(st.sampled_from(TARGETS), min_size=1, max_size=3, unique=True)), "c": draw(st.integers(1, 9)) * 1000000}
        outer = None
        if draw(st.integers(0, 2)) == 0:
            outer = {"targets": draw(st.lists(st.sampled_from(TARGETS), min_size=1, max_size=3, unique=True)), "c": draw(st.integers(1, 9)) * 10000,
                     "remark": draw(st.integers(0, 2)) == 0}
        kernels.append({"blocks": blocks, "include": inc, "outer": outer, "fillers": draw(st.integers(0, 3)), "restrict": draw(st.booleans())})
    if draw(st.integers(0, 7)) == 0:
        # a source without any vectorised block (a scalar kernel): restricted lines / include files must be honoured all the same
        kernels = kernels[:1]
        kernels[0]["blocks"] = []
        kernels[0]["scalar_k"] = draw(st.integers(-5, 5))
        if kernels[0]["outer"] is None:
            kernels[0]["outer"] = {"targets": draw(st.lists(st.sampled_from(TARGETS), min_size=1, max_size=3, unique=True)), "c": draw(st.integers(1, 9)) * 10000}
        n = max(n, 1)
    header = None
    if draw(st.integers(0, 2)) == 0:
        # annotated text handed over through the extra_headers option instead of sources
        header = {"targets": draw(st.lists(st.sampled_from(TARGETS), min_size=1, max_size=3, unique=True)), "c": draw(st.integers(1, 9)) * 100000000}
    n2 = draw(st.sampled_from([n, n, 0, 1, n + 1, n + block + 1, max(n - 1, 0)]))  # bound of the blocks vectorised over n2
    # the same source text listed twice (its second occurrence defines something the first does not)
    return {"kernels": kernels, "n": n, "n2": n2, "block": block, "header": header, "dup": draw(st.integers(0, 3)) == 0}


def strategy(tier):
    return cases(tier)


# --------------------------------------------------------------------------
# source generation
# --------------------------------------------------------------------------

VARS = ["ii", "jj", "kk"]


DUP_TEXT = "#ifdef VF_ONCE\n#define VF_TWICE\n#endif\n#ifndef VF_ONCE\n#define VF_ONCE\n#endif\n"


def make_source(case):
    """-> (source text, include files {name: text}, filler lines in order, restricted lines [(text, targets)], header text)"""
    lines = ["#ifndef XOBJ_STDINT", "#include <stdint.h>", "#endif", "#ifndef VF_HDR", "#define VF_HDR 0", "#endif",
             "#ifdef VF_TWICE", "#define VF_DUP 3000000000.0", "#else", "#define VF_DUP 0", "#endif"]
    files = {}
    fillers = []
    restricted = []
    header = ""
    if case.get("header"):
        t = f"#define VF_HDR {case['header']['c']} /*r0*/ //only_for_context {' '.join(case['header']['targets'])}"
        restricted.append((t, case["header"]["targets"]))
        header = "/* text given as extra header */\n" + t + "\n"
    fc = [0]

    def filler(indent="    "):
        fc[0] += 1
        t = f"{indent}int vf_unused_{fc[0]} = {fc[0]}; (void) vf_unused_{fc[0]}; /* plain text {fc[0]}: not an annotation, vectorize over nothing */"
        fillers.append(t)
        return t

    for j, k in enumerate(case["kernels"]):
        if k["include"] is not None:
            fname = f"vf_inc_{j}.h"
            files[fname] = f"#define VF_BIAS_{j} {k['include']['bias']}\n/* included file {j} */\n"
            if k["include"].get("line"):
                ln_ = k["include"]["line"]
                files[fname] += f"#define VF_INCL_{j} {ln_['c']} //only_for_context {' '.join(ln_['targets'])}\n"
            lines.append(f"//include_file {fname} for_context {' '.join(k['include']['targets'])}")
            if k["include"].get("targets2"):
                lines.append(f"//include_file {fname} for_context {' '.join(k['include']['targets2'])}")
        lines += [f"#ifndef VF_BIAS_{j}", f"#define VF_BIAS_{j} 0", "#endif", f"#ifndef VF_INCL_{j}", f"#define VF_INCL_{j} 0", "#endif"]
        if any(b["helper"] for b in k["blocks"]):
            lines.append(f"/*gpufun*/ double vf_helper_{j}(double x, int k)" + "{")
            lines.append("    return 2 * x + k;")
            lines.append("}")
        rq = "/*restrict*/" if k["restrict"] else ""
        lines.append(f"/*gpukern*/ void vfk{j}(/*gpuglmem*/ const double* {rq} x, /*gpuglmem*/ double* {rq} y, /*gpuglmem*/ int32_t* cnt, const int64_t n, const int64_t n2, const int64_t nt, const int64_t stride)" + "{")
        for _ in range(k["fillers"]):
            lines.append(filler())
        lines.append("    double vf_outer = 0;")
        if k["outer"] is not None:
            t = f"    /*r{len(restricted)}*/ vf_outer = {k['outer']['c']}; {'// a remark ' if k['outer'].get('remark') else ''}//only_for_context {' '.join(k['outer']['targets'])}"
            restricted.append((t, k["outer"]["targets"]))
            lines.append(t)
        if not k["blocks"]:
            lines.append(f"    y[0] = 2 * x[0] + ({k['scalar_k']}) + VF_BIAS_{j} + VF_INCL_{j} + VF_HDR + VF_DUP + vf_outer;")
            lines.append("    cnt[0] = 7;")
        for b, blk in enumerate(k["blocks"]):
            v = VARS[b]
            bd = blk.get("bound", "n")
            if blk["form"] == "decl":
                lines.append(f"    int {v}; //vectorize_over {v} {bd}")
            else:
                lines.append(f"    for (int {v}=0; {v}<{bd}; {v}++)" + "{ " + f"//vectorize_over {v} {bd}")
            for _ in range(blk["fillers"]):
                lines.append(filler("        "))
            base = f"vf_helper_{j}(x[{v}], {blk['k']})" if blk["helper"] else f"2 * x[{v}] + ({blk['k']})"
            lines.append(f"        cnt[{b} * stride + {v}] += 1;")
            lines.append(f"        y[{b} * stride + {v}] = {base} + VF_BIAS_{j} + VF_INCL_{j} + VF_HDR + VF_DUP + vf_outer;")
            if blk["restricted"] is not None:
                t = f"        /*r{len(restricted)}*/ y[{b} * stride + {v}] += {blk['restricted']['c']}; {'// a remark ' if blk['restricted'].get('remark') else ''}//only_for_context {' '.join(blk['restricted']['targets'])}"
                restricted.append((t, blk["restricted"]["targets"]))
                lines.append(t)
            lines.append("    }//end_vectorize" if blk["form"] == "for" else "    //end_vectorize")
        lines.append("}")
    return "\n".join(lines) + "\n", files, fillers, restricted, header


def bound_value(expr, n, n2):
    """value of a block's limit expression (C integer arithmetic; operands are non-negative here)"""
    return {"n": n, "n2": n2, "n2*0+n": n, "2*n-n": n, "n-1": n - 1, "(n+n2)/2": (n + n2) // 2}[expr]


def reference(case, j, target, x):
    """expected (cnt, y) of kernel j on a target"""
    k = case["kernels"][j]
    n = case["n"]
    n2 = case.get("n2", n)
    stride = max(n, n2) + PAD
    nb = max(len(k["blocks"]), 1)
    cnt = np.zeros(nb * stride, dtype="int32")
    y = np.full(nb * stride, SENT)
    bias = k["include"]["bias"] if k["include"] is not None and target in _inc_targets(k["include"]) else 0
    outer = k["outer"]["c"] if k["outer"] is not None and target in k["outer"]["targets"] else 0
    if k["include"] is not None and k["include"].get("line") and target in _inc_targets(k["include"]) and target in k["include"]["line"]["targets"]:
        bias += k["include"]["line"]["c"]
    if case.get("header") and target in case["header"]["targets"]:
        bias += case["header"]["c"]
    if case.get("dup"):
        bias += 3000000000.0
    if not k["blocks"]:
        cnt[0] = 7
        y[0] = 2 * x[0] + k["scalar_k"] + bias + outer
    for b, blk in enumerate(k["blocks"]):
        extra = blk["restricted"]["c"] if blk["restricted"] is not None and target in blk["restricted"]["targets"] else 0
        # CPU: once per index below the block's bound; CUDA: once per work item, guarded by the bound; OpenCL: once per
        # work item, unguarded (the statement's wording) - max(n, n2) work items are launched
        for i in range(max(n, n2) if target == "opencl" else max(0, bound_value(blk.get("bound", "n"), n, n2))):
            cnt[b * stride + i] = 1
            y[b * stride + i] = 2 * x[i] + blk["k"] + bias + outer + extra
    return cnt, y


def _inc_targets(inc):
    return set(inc["targets"]) | set(inc.get("targets2", []))


def launch_geometry(n, block):
    """(opencl global size, (cuda grid, cuda block)) as computed by the contexts' own kernel call code"""
    import xobjects as xo
    from xobjects.context_pyopencl import KernelPyopencl
    from xobjects.context_cupy import KernelCupy

    rec = {}

    def fake_cl(queue, gsize, lsize, *args):
        rec["cl"] = (gsize, lsize)
        return None

    def fake_cuda(grid, blk, args, shared_mem=None):
        rec["cuda"] = (grid, blk)

    class _Ctx:
        queue = None

    desc = xo.Kernel(args=[xo.Arg(xo.Int64, name="n")], n_threads="n")
    desc.pyname = "geometry"
    KernelPyopencl(function=fake_cl, description=desc, context=_Ctx(), wait_on_call=False)(n=n)
    KernelCupy(function=fake_cuda, description=desc, block_size=block, context=_Ctx(), shared_mem_size_bytes=0)(n=n)
    (gs,), ls = rec["cl"]
    (grid,), (blk,) = rec["cuda"]
    return int(gs), ls, int(grid), int(blk)


OCL_PRELUDE = """#include <stdint.h>
#define XOBJ_STDINT
static int64_t vf_gid;
static int64_t get_global_id(int d){ (void) d; return vf_gid; }
#define __global
#define __kernel
"""
CUDA_PRELUDE = """#include <stdint.h>
#define XOBJ_STDINT
typedef struct { int x; } vf_dim3;
static vf_dim3 blockDim, blockIdx, threadIdx;
#define __global__
#define __device__
"""


def run_case(case):
    import xobjects as xo
    from xobjects.specialize_source import specialize_source
    import cffi

    cbuild.quiet()
    labels = set()
    n, block = case["n"], case["block"]
    src, files, fillers, restricted, header = make_source(case)
    dup = [DUP_TEXT, DUP_TEXT] if case.get("dup") else []
    if dup:
        labels.add("same_source_text_listed_twice")
    if header:
        labels.add("annotated_extra_header")
    if any(k["include"] is not None and k["include"].get("line") for k in case["kernels"]):
        labels.add("restricted_line_in_included_file")
    for fn_, txt in files.items():
        with open(fn_, "w") as f:
            f.write(txt)
    nk = len(case["kernels"])
    labels.add(f"n_{n}" if n == 0 else "n_pos")
    if block and n % block:
        labels.add("n_not_multiple_of_block")
    if nk >= 2:
        labels.add("kernels_2plus")
    nontrivial = bool(n % block) if block else False
    for k in case["kernels"]:
        if not k["blocks"]:
            labels.add("no_vectorised_block_in_source")
        if len(k["blocks"]) >= 2:
            labels.add("two_blocks_in_kernel")
            nontrivial = True
        if k["include"] is not None:
            labels.add("include_file")
        for blk in k["blocks"]:
            labels.add("form:" + blk["form"])
            if blk["restricted"] is not None:
                labels.add("restricted_line_in_block")
                nontrivial = True
                if blk["restricted"].get("remark"):
                    labels.add("remark_before_annotation")
            if blk["helper"]:
                labels.add("helper_function")
    # ---- structure of every specialisation
    texts = {}
    for t in TARGETS:
        r = sut(specialize_source, header + "".join(dup) + src, t, search_in_folders=["."])  # headers and sources are one text
        if is_raised(r):
            return fail("specialize_raised", f"{t}: {r}", f"{t}|{r.key}", labels)
        texts[t] = r
        out_lines = r.split("\n")
        pos = -1
        for fl in fillers:
            hits = [i for i, ln in enumerate(out_lines) if ln.strip() == fl.strip()]
            if len(hits) != 1:
                return fail("unannotated_text_changed", f"{t}: the plain line {fl.strip()[:60]!r} appears {len(hits)} times unchanged", t, labels)
            if hits[0] < pos:
                return fail("unannotated_text_reordered", f"{t}: plain lines out of order", t, labels)
            pos = hits[0]
        for txt, targets in restricted:
            code = txt.strip().split("*/")[0] + "*/"  # the unique tag of this line
            act = [ln for ln in out_lines if code in ln and not ln.strip().startswith("//")]
            com = [ln for ln in out_lines if code in ln and ln.strip().startswith("//")]
            if (t in targets and (len(act) != 1 or com)) or (t not in targets and (act or len(com) != 1)):
                return fail("only_for_context_activity", f"{t}: line '{code}' restricted to {targets}: active {len(act)}x, commented {len(com)}x", "active_where_not_named" if act and t not in targets else "inactive_where_named", labels)
        for j, k in enumerate(case["kernels"]):
            if k["include"] is not None:
                present = f"/* included file {j} */" in r
                if k["include"].get("targets2"):
                    labels.add("include_file_named_twice")
                if present != (t in _inc_targets(k["include"])):
                    return fail("include_file_splicing", f"{t}: file of kernel {j} for_context {sorted(_inc_targets(k['include']))}: spliced={present}", "spliced_where_not_named" if present else "missing_where_named", labels)
        for ph in ("/*gpukern*/", "/*gpufun*/", "/*gpuglmem*/", "/*restrict*/"):
            if ph in r:
                return fail("placeholder_left", f"{t}: {ph} not substituted", ph, labels)
    # ---- execution
    n2 = case.get("n2", n)
    nt = max(n, n2)  # work items launched: enough for every block of the kernel
    rng_x = np.array([(i * 37 % 11) - 3.5 for i in range(max(nt, 1))], dtype="float64")[:nt]
    stride = nt + PAD
    if n2 != n and any(len({bound_value(b.get("bound", "n"), n, n2) for b in k["blocks"]}) >= 2 for k in case["kernels"]):
        labels.add("blocks_with_different_bounds")
    if any(b.get("bound", "n") not in ("n", "n2") for k in case["kernels"] for b in k["blocks"]):
        labels.add("limit_given_as_expression")
    if n > 4096:
        labels.add("n_over_4096")

    def fresh(j):
        nb = max(len(case["kernels"][j]["blocks"]), 1)
        return np.zeros(nb * stride, dtype="int32"), np.full(nb * stride, SENT)

    def compare(t, j, cnt, y):
        ec, ey = reference(case, j, t, rng_x)
        if not np.array_equal(cnt, ec):
            bad = [int(i) for i in np.nonzero(cnt != ec)[0][:6]]
            kind = "canary" if any(i % stride >= nt for i in bad) else ("not_once" if nt else "n0")
            return fail("executions_per_index", f"{t} kernel {j} n={n} n2={n2} block={block}: counter at flat positions {bad} is {[int(cnt[i]) for i in bad]}, expected {[int(ec[i]) for i in bad]} (stride {stride})", f"{t}|{kind}", labels)
        if not np.array_equal(y, ey):
            bad = [int(i) for i in np.nonzero(y != ey)[0][:6]]
            return fail("result_differs", f"{t} kernel {j} n={n}: y at {bad} is {[float(y[i]) for i in bad]}, reference {[float(ey[i]) for i in bad]}", t, labels)
        return None

    _n[0] += 1
    for t, nthreads in (("cpu_serial", 0), ("cpu_openmp", 2), ("cpu_openmp", 1)):
        ctx = xo.ContextCpu() if t == "cpu_serial" else xo.ContextCpu(omp_num_threads=nthreads)
        kerns = {}
        for j in range(nk):
            kerns[f"vfk{j}"] = xo.Kernel(c_name=f"vfk{j}", args=[
                xo.Arg(xo.Float64, pointer=True, const=True, name="x"), xo.Arg(xo.Float64, pointer=True, name="y"),
                xo.Arg(xo.Int32, pointer=True, name="cnt"), xo.Arg(xo.Int64, name="n"), xo.Arg(xo.Int64, name="n2"), xo.Arg(xo.Int64, name="nt"), xo.Arg(xo.Int64, name="stride")], n_threads="nt")
        r = sut(ctx.add_kernels, sources=dup + [src], kernels=kerns, extra_headers=[header] if header else (), extra_compile_args=("-O1", "-Wno-unused-function"), extra_link_args=())
        if is_raised(r):
            return fail("cpu_build_failed", f"{t} ({nthreads} threads): {r}", f"{t}|{r.key}", labels)
        for j in range(nk):
            for rep in range(2):  # twice: per call, not per lifetime
                cnt, y = fresh(j)
                xin = rng_x.copy() if nt else np.zeros(1)
                rr = sut(lambda: getattr(ctx.kernels, f"vfk{j}")(x=xin, y=y, cnt=cnt, n=n, n2=n2, nt=nt, stride=stride))
                if is_raised(rr):
                    return fail("cpu_call_raised", f"{t} kernel {j}: {rr}", f"{t}|{rr.key}", labels)
                c = compare(t, j, cnt, y)
                if c:
                    return c
    geo = sut(launch_geometry, nt, block)
    if is_raised(geo):
        return fail("launch_geometry_raised", f"{geo}", geo.key, labels)
    gsize, lsize, grid, blk = geo
    labels.add("geometry_recorded")
    # the simulated launch writes into harness arrays with PAD spare entries per block: a geometry with more unguarded
    # OpenCL work items than that (or a CUDA launch larger than one block beyond that) is judged here, not executed
    if not 0 <= gsize <= nt + PAD:
        return fail("executions_per_index", f"opencl n={n} n2={n2}: {gsize} work items launched for {nt} indices (unguarded on OpenCL)", "opencl|global_size", labels)
    if not (0 <= grid * blk <= nt + blk + PAD and blk > 0):
        return fail("executions_per_index", f"cuda n={n} n2={n2} block={block}: grid {grid} x block {blk} for {nt} indices", "cuda|grid", labels)
    for t, prelude in (("opencl", OCL_PRELUDE), ("cuda", CUDA_PRELUDE)):
        drv = []
        for j in range(nk):
            sig = "const double* x, double* y, int32_t* cnt, int64_t n, int64_t n2, int64_t nt, int64_t stride"
            if t == "opencl":
                drv.append(f"void vf_drive{j}({sig}, int64_t a, int64_t b)" + "{ (void) b; for (vf_gid = 0; vf_gid < a; vf_gid++) " + f"vfk{j}(x, y, cnt, n, n2, nt, stride);" + " }")
            else:
                drv.append(f"void vf_drive{j}({sig}, int64_t a, int64_t b)" + "{ blockDim.x = (int) b; for (int g = 0; g < a; g++) for (int th = 0; th < b; th++) { blockIdx.x = g; threadIdx.x = th; " + f"vfk{j}(x, y, cnt, n, n2, nt, stride);" + " } }")
        full = prelude + texts[t] + "\n" + "\n".join(drv) + "\n"
        cfile = f"vf_{t}_{_n[0]}.c"
        so = os.path.abspath(f"vf_{t}_{os.getpid()}_{_n[0]}.so")
        with open(cfile, "w") as f:
            f.write(full)
        r = cbuild.run(["gcc", "-std=c99", "-O1", "-w", "-shared", "-fPIC", "-o", so, cfile])
        if r.returncode != 0:
            return fail("gpu_text_rejected_by_host_compiler", f"{t}: {r.stdout[-600:]}", t, labels)
        ffi = cffi.FFI()
        ffi.cdef("\n".join(f"void vf_drive{j}(const double* x, double* y, int32_t* cnt, int64_t n, int64_t n2, int64_t nt, int64_t stride, int64_t a, int64_t b);" for j in range(nk)))
        lib = ffi.dlopen(so)
        try:
            for j in range(nk):
                cnt, y = fresh(j)
                xin = rng_x.copy() if nt else np.zeros(1)
                a, b = (gsize, 0) if t == "opencl" else (grid, blk)
                getattr(lib, f"vf_drive{j}")(ffi.cast("double*", xin.ctypes.data), ffi.cast("double*", y.ctypes.data), ffi.cast("int32_t*", cnt.ctypes.data), n, n2, nt, stride, a, b)
                c = compare(t, j, cnt, y)
                if c:
                    return c
        finally:
            ffi.dlclose(lib)
            for fn_ in (cfile, so):
                try:
                    os.remove(fn_)
                except OSError:
                    pass
    for fn_ in files:
        try:
            os.remove(fn_)
        except OSError:
            pass
    return Outcome(True, labels=sorted(labels), nontrivial=nontrivial)
