"""C17 — kernel calls deliver every argument and the return value faithfully.

Each case generates a kernel *signature*, the C source of an echo kernel for
it, actual arguments, and calls it through ctx.add_kernels / ctx.kernels.
The kernel copies what it received into a record (scalar bytes, pointer
addresses, the first bytes behind every pointer), flips one byte behind every
pointer and returns one of its by-value arguments.
"""

import copy

import numpy as np
from hypothesis import strategies as st

from vlib.core import Outcome, fail, sut, is_raised
from vlib import typegen as tg
from vlib import mat, hybgen, layout, cbuild
from vlib import placement as pl

ID = "C17"
LEVEL = "exploration"
FP_MODE_MATTERS = True  # values travel through compiled code: see vlib/main.py run_case_guarded
SHRINK_BUDGET = 30
SLOT = 24  # bytes of record per argument: [0:8] value or address, [8:16] first bytes behind a pointer, [16:24] spare
RULE = (
    "case = kernel signature of 1-6 arguments, each {scalar by value of the 10 kinds | pointer to scalar of the 10 "
    "kinds with actual argument: 1-D ndarray, ndarray slice with offset, strided / reversed / 2-D / F-ordered ndarray, "
    "xobject scalar array static or dynamic at any offset | xobject: generated Struct / Array / UnionRef object or a "
    "generated HybridClass object}, optional scalar return value, values at the type extremes / +-0.0 / inf / NaN, "
    "xobjects sharing one buffer at offsets != 0 after 0-2 buffer growths, serial or OpenMP context. The C source of an "
    "echo kernel is generated from the signature and built with ctx.add_kernels (in one case of three under a name that an earlier kernel of another signature, already called, holds in that context); the call goes through "
    "ctx.kernels.<name>(**kwargs). Oracle: the record written by the kernel holds the exact bytes of every scalar, "
    "for every pointer the address of the first element (computed independently from numpy's array interface / the "
    "buffer's storage address + offset + documented data offset) and the bytes found there, for every xobject the "
    "address of its first byte at its CURRENT location and its first 8 bytes; the byte the kernel flips behind every "
    "pointer appears at exactly that element and nothing else changes; the return value equals the chosen argument "
    "bit for bit. Misuse (positional call, one argument missing, one extra, misspelt name, array of another element "
    "type) must raise and leave every buffer and array unchanged. Non-trivial = an xobject argument not at offset 0 "
    "or after growth, or a pointer argument that is an xobject array or a slice; distinct = distinct case JSON."
)
ASSUMPTIONS = [
    "scalar values are exactly representable in the declared C type (the statement's domain)",
    "pointer arguments are ndarrays of exactly the declared element type, or xobject arrays of that item type (other element types are the negative cases)",
    "CPU contexts (serial, OpenMP with 2 threads); gcc via cffi at -O0",
]

NPT = {t: t.lower() for t in tg.SCALARS}
CT = {"Float64": "double", "Float32": "float", "Int64": "int64_t", "UInt64": "uint64_t", "Int32": "int32_t", "UInt32": "uint32_t",
      "Int16": "int16_t", "UInt16": "uint16_t", "Int8": "int8_t", "UInt8": "uint8_t"}
NEG = ["positional", "missing", "extra", "misspelt", "wrong_dtype"]
_n = [0]


def budget(tier):
    return {"examples": 50 if tier == "quick" else 800}


def essential_labels(tier):
    return ["arg:scalar", "arg:ptr_ndarray", "arg:ptr_slice", "arg:ptr_xarray", "arg:xobj_struct", "arg:xobj_array", "arg:xobj_union", "arg:xobj_hybrid",
            "after_growth", "omp", "has_return", "arg:ptr_noncontiguous_2d", "neg:positional", "neg:wrong_dtype", "neg:wrong_dtype_not_numeric", "xobj_offset_nonzero"]


@st.composite
def cases(draw, tier):
    nargs = draw(st.integers(1, 6))
    args = []
    for i in range(nargs):
        k = draw(st.sampled_from(["scalar", "scalar", "ptr", "ptr", "xobj", "xobj"]))
        if k == "scalar":
            t = draw(st.sampled_from(tg.SCALARS))
            args.append({"k": "scalar", "t": t, "v": draw(tg.scalar_values(t))})
        elif k == "ptr":
            t = draw(st.sampled_from(tg.SCALARS))
            form = draw(st.sampled_from(["nd1", "slice", "strided", "reversed", "nd2", "ndF", "colblock", "transposed", "xarr_static", "xarr_dyn", "xarr_2d", "xarr_unaligned"]))
            n = draw(st.integers(1, 6))
            vals = [draw(tg.scalar_values(t)) for _ in range(n * 4)]
            args.append({"k": "ptr", "t": t, "form": form, "n": n, "off": draw(st.integers(0, 3)), "vals": vals})
        else:
            form = draw(st.sampled_from(["struct", "array", "union", "hybrid"]))
            if form == "hybrid":
                h = draw(hybgen.hspecs(hybgen.HCfg(tier, max_depth=1, allow_defaults=False, allow_rename=False)))
                for hh in hybgen.subclasses(h):
                    hh["name"] = f"K{i}{hh['name']}"
                args.append({"k": "xobj", "form": form, "h": h, "value": hybgen.hvalues(draw, h, absent_ok=False)})
            else:
                cfg = tg.Cfg(tier, max_leaves=5, roots=({"struct": "struct", "array": "array", "union": "unionref"}[form],))
                spec = draw(tg.type_specs(cfg))
                for s, _ in tg.subspecs(spec):
                    if s.get("name"):
                        s["name"] = f"K{i}{s['name']}"
                if spec["k"] == "array" and not spec.get("name"):
                    spec["name"] = f"K{i}Root"
                args.append({"k": "xobj", "form": form, "type": spec, "value": tg._draw_value(draw, spec, cfg)})
    scal = [i for i, a in enumerate(args) if a["k"] == "scalar"]
    ret = draw(st.sampled_from(scal)) if scal and draw(st.booleans()) else None
    return {
        "args": args, "ret": ret, "omp": draw(st.integers(0, 2)) == 0,
        "grow": draw(st.lists(st.sampled_from([8, 64, 1000]), max_size=2)),
        "pre": draw(st.sampled_from([0, 8, 24, 40])), "cap": draw(st.sampled_from([0, 64, 4096])),
        "neg": draw(st.sampled_from([None, None] + NEG)),
        "twice": draw(st.booleans()),
        "redefine": draw(st.integers(0, 2)) == 0,
        "default_flags": draw(st.integers(0, 2)) == 0,
        "bytearray": draw(st.integers(0, 3)) == 0,
    }


def strategy(tier):
    return cases(tier)


# --------------------------------------------------------------------------


def c_source(name, sig):
    """sig: list of (kind, ctype or class name); last parameter is the record"""
    params = []
    body = ["  uint64_t ad; (void) ad;"]
    for i, (k, ct) in enumerate(sig):
        if k == "scalar":
            params.append(f"{ct} a{i}")
            body.append(f"  memcpy(rec + {SLOT * i}, &a{i}, sizeof(a{i}));")
        elif k == "ptr":
            params.append(f"{ct}* a{i}")
            body.append(f"  ad = (uint64_t)(uintptr_t) a{i}; memcpy(rec + {SLOT * i}, &ad, 8);")
            body.append(f"  memcpy(rec + {SLOT * i + 8}, a{i}, sizeof(*a{i}));")
            body.append(f"  ((uint8_t*) a{i})[0] ^= 0x5A;")
        else:
            params.append(f"{ct} a{i}")
            body.append(f"  ad = (uint64_t)(uintptr_t) a{i}; memcpy(rec + {SLOT * i}, &ad, 8);")
            body.append(f"  memcpy(rec + {SLOT * i + 8}, (char*) a{i}, 8);")
            body.append(f"  ((uint8_t*) a{i})[1] ^= 0xA5;")
    params.append("uint8_t* rec")
    return params, body


def scalar_bytes(t, v):
    """the bytes of value v in kind t.  Subnormal Float32 values are converted with integer arithmetic only: the
    expected bytes must not depend on the floating-point mode of the process (a loaded module may have switched it)"""
    if t == "Float32" and v == v and 0 < abs(v) < 2.0 ** -126:
        import struct
        from fractions import Fraction

        m = Fraction(abs(v)) * (1 << 149)
        if m.denominator == 1:
            return struct.pack("<I", (0x80000000 if v < 0 else 0) | int(m))
    if t == "Float64":
        import struct

        return struct.pack("<d", v)
    return np.array([v], dtype=NPT[t]).tobytes()


def run_case(case):
    import xobjects as xo

    cbuild.quiet()
    _n[0] += 1
    kname = f"echo_{_n[0]}"
    labels = set()
    ctx = xo.ContextCpu(omp_num_threads=2) if case["omp"] else xo.ContextCpu()
    if case["omp"]:
        labels.add("omp")
    if case.get("bytearray"):
        from xobjects.context_cpu import BufferByteArray

        buf = BufferByteArray(capacity=case["cap"], context=ctx)  # the other buffer kind of the CPU context
        labels.add("objects_in_bytearray_buffer")
    else:
        buf = ctx.new_buffer(case["cap"])
    if case["pre"]:
        buf.allocate(case["pre"])
    # ---- actual arguments
    kargs, kwargs, sig, expect = [], {}, [], []
    nontrivial = False
    for i, a in enumerate(case["args"]):
        nm = f"a{i}"
        if a["k"] == "scalar":
            kargs.append(xo.Arg(getattr(xo, a["t"]), name=nm))
            sig.append(("scalar", CT[a["t"]]))
            kwargs[nm] = a["v"]
            expect.append(("scalar", a["t"], a["v"]))
            labels.add("arg:scalar")
        elif a["k"] == "ptr":
            T = getattr(xo, a["t"])
            kargs.append(xo.Arg(T, pointer=True, name=nm))
            sig.append(("ptr", CT[a["t"]]))
            dt = NPT[a["t"]]
            n, vals, form = a["n"], a["vals"], a["form"]
            if form.startswith("xarr"):
                labels.add("arg:ptr_xarray")
                nontrivial = True
                if form in ("xarr_static", "xarr_unaligned"):
                    spec = {"k": "array", "name": None, "item": {"k": "scalar", "t": a["t"]}, "shape": [n], "order": [0]}
                    val = {"shape": [n], "flat": vals[:n]}
                elif form == "xarr_dyn":
                    spec = {"k": "array", "name": None, "item": {"k": "scalar", "t": a["t"]}, "shape": [None], "order": [0]}
                    val = {"shape": [n], "flat": vals[:n]}
                else:
                    spec = {"k": "array", "name": None, "item": {"k": "scalar", "t": a["t"]}, "shape": [None, 2], "order": [0, 1]}
                    val = {"shape": [n, 2], "flat": vals[: 2 * n]}
                node = mat.materialise(spec)
                if a["off"]:
                    buf.allocate(8 * a["off"])
                kwx = {}
                if form == "xarr_unaligned":
                    # placed by the caller at an offset that is not a multiple of the item size
                    o_ = buf.allocate(8 * n + 16)
                    kwx["_offset"] = o_ + 1 + a["off"] % 7
                    labels.add("arg:ptr_xarray_unaligned")
                x = sut(mat.construct, node, val, mat.Forms([1]), mat.Env(buf, ctx), _buffer=buf, **kwx)
                if is_raised(x):
                    return fail("construct_raised", f"{x}", x.key, labels)
                kwargs[nm] = x
                expect.append(("xarr", a["t"], x, spec))
            else:
                base = np.array(vals, dtype=dt)
                if form == "nd1":
                    v = base[:n].copy()
                    labels.add("arg:ptr_ndarray")
                elif form == "slice":
                    v = base[a["off"]: a["off"] + n]
                    labels.add("arg:ptr_slice")
                    nontrivial = True
                elif form == "strided":
                    v = base[a["off"] % 2:: 2][:n]
                    labels.add("arg:ptr_slice")
                    nontrivial = True
                elif form == "reversed":
                    v = base[:n][::-1]
                    labels.add("arg:ptr_slice")
                    nontrivial = True
                elif form == "nd2":
                    v = base[: 2 * n].reshape(n, 2)[a["off"] % n:, :]
                    labels.add("arg:ptr_ndarray")
                elif form == "ndF":
                    v = np.asfortranarray(base[: 3 * n].reshape(n, 3))[:, 1:]  # F-ordered block: not C-contiguous
                    labels.add("arg:ptr_noncontiguous_2d")
                    nontrivial = True
                elif form == "colblock":
                    v = base[: 3 * n].reshape(n, 3)[:, 1:]  # columns 1.. of a C-ordered matrix
                    labels.add("arg:ptr_noncontiguous_2d")
                    nontrivial = True
                else:
                    v = base[: 2 * n].reshape(2, n).T[a["off"] % n:, :]  # transposed view
                    labels.add("arg:ptr_noncontiguous_2d")
                    nontrivial = True
                kwargs[nm] = v
                expect.append(("nd", a["t"], v, _owner(v)))
        else:
            if a["form"] == "hybrid":
                hn = hybgen.materialise(a["h"])
                x = sut(lambda: hn.cls(**hybgen.init_kwargs(hn, a["value"]), _buffer=buf))
                cls_ = hn.cls._XoStruct
            else:
                node = mat.materialise(a["type"])
                x = sut(mat.construct, node, a["value"], mat.Forms([0]), mat.Env(buf, ctx), _buffer=buf)
                cls_ = node.cls
            if is_raised(x):
                return fail("construct_raised", f"{x}", x.key, labels)
            kargs.append(xo.Arg(cls_, name=nm))
            sig.append(("xobj", cls_.__name__))
            kwargs[nm] = x
            expect.append(("xobj", None, x))
            labels.add("arg:xobj_" + a["form"])
            if int(x._offset) != 0:
                labels.add("xobj_offset_nonzero")
                nontrivial = True
    nargs = len(case["args"])
    rec = np.zeros(SLOT * nargs + 8, dtype="uint8")
    rec[:] = 0xEE
    kargs.append(xo.Arg(xo.UInt8, pointer=True, name="rec"))
    kwargs["rec"] = rec
    ret = None
    if case["ret"] is not None:
        ra = case["args"][case["ret"]]
        ret = xo.Arg(getattr(xo, ra["t"]))
        labels.add("has_return")
    params, body = c_source(kname, sig)
    rtype = CT[case["args"][case["ret"]]["t"]] if ret is not None else "void"
    src = "#include <string.h>\n#include <stdint.h>\n" + f"{rtype} {kname}({', '.join(params)})" + "{\n" + "\n".join(body) + "\n" + (f"  return a{case['ret']};\n" if ret is not None else "") + "}\n"
    kern = xo.Kernel(args=kargs, c_name=kname, ret=ret)
    if case.get("redefine"):
        # the name is in use already: an earlier kernel with another signature was built under it in this context and
        # called; the kernel described NOW is the one that must receive the arguments
        old = xo.Kernel(args=[xo.Arg(xo.Int32, name="q")], c_name=kname + "_old", ret=xo.Arg(xo.Int32))
        r = sut(ctx.add_kernels, sources=[f"#include <stdint.h>\nint32_t {kname}_old(int32_t q){{ return q + 1; }}\n"], kernels={kname: old},
                extra_compile_args=cbuild.FAST_FLAGS, extra_link_args=())
        if is_raised(r):
            return fail("kernel_build_failed", f"earlier kernel: {r}", r.key, labels)
        got = sut(lambda: getattr(ctx.kernels, kname)(q=41))
        if is_raised(got) or got != 42:
            return fail("scalar_not_faithful", f"earlier kernel {kname}(q=41) returned {got}", "Int32|earlier_kernel", labels)
        labels.add("kernel_name_redefined_after_a_call")
    if case.get("default_flags"):
        # built the way callers usually build: with the library's own default compiler and linker options
        r = sut(ctx.add_kernels, sources=[src], kernels={kname: kern})
        labels.add("built_with_default_flags")
    else:
        r = sut(ctx.add_kernels, sources=[src], kernels={kname: kern}, extra_compile_args=cbuild.FAST_FLAGS, extra_link_args=())
    if is_raised(r):
        return fail("kernel_build_failed", f"{r}\n{src[:600]}", r.key, labels)

    def snapshot():
        return (pl.snapshot(buf), [_membytes(e[3]) if e[0] == "nd" else None for e in expect], rec.tobytes())

    # ---- negative cases first (they must not change anything)
    if case["neg"]:
        before = snapshot()
        kw = dict(kwargs)
        neg = case["neg"]
        if case.get("twice"):
            # the same kernel reached by subscript instead of attribute access
            entry = lambda: ctx.kernels[kname]
            labels.add("neg_via_subscript")
        else:
            entry = lambda: getattr(ctx.kernels, kname)
        if neg == "positional":
            call = lambda: entry()(*kw.values())
        elif neg == "missing":
            kw.pop(f"a{nargs - 1}")
            call = lambda: entry()(**kw)
        elif neg == "extra":
            kw["zz"] = 1
            call = lambda: entry()(**kw)
        elif neg == "misspelt":
            kw["b0"] = kw.pop("a0")
            call = lambda: entry()(**kw)
        else:
            ptrs = [i for i, e in enumerate(expect) if e[0] in ("nd", "xarr")]
            if not ptrs:
                call = None
            else:
                i = ptrs[0]
                t = expect[i][1]
                other = "Float32" if t != "Float32" else "Int32"
                if np.dtype(NPT[other]).itemsize == np.dtype(NPT[t]).itemsize and other == "Float32" and t in ("Int32", "UInt32"):
                    other = "Float64"
                wrong = np.zeros(8, dtype=NPT[other])
                if (len(expect) + case["neg_salt"]) % 2 if "neg_salt" in case else len(case["args"]) % 2:
                    # an array that is not numeric at all, of the declared element's width (or kind)
                    width = np.dtype(NPT[t]).itemsize
                    alt = {"Float32": np.zeros(8, dtype="float16"), "Float64": None}.get(
                        t, {1: np.zeros(8, dtype=bool), 2: np.zeros(8, dtype="S2"), 4: np.zeros(8, dtype="S4"), 8: np.array([1, 2, 3, 4, 5, 6, 7, 8], dtype=object)}[width])
                    if alt is not None:
                        wrong = alt
                        labels.add("neg:wrong_dtype_not_numeric")
                kw[f"a{i}"] = wrong
                call = lambda: entry()(**kw)
        if call is not None:
            labels.add("neg:" + neg)
            rr = sut(call)
            if not is_raised(rr):
                return fail("misuse_accepted", f"{neg}: the call returned {rr!r}", neg, labels)
            if snapshot() != before:
                return fail("misuse_changed_memory", f"{neg}: raised {rr} but a buffer / array / the record changed", neg, labels)
    def verify_call(stage):
        # ---- the call
        img0 = pl.snapshot(buf)
        nd0 = [_membytes(e[3]) if e[0] == "nd" else None for e in expect]
        res = sut(lambda: getattr(ctx.kernels, kname)(**kwargs))
        if is_raised(res):
            return fail("call_raised", f"{stage}: {res}; signature {[s for s in sig]}", res.key + "|" + _argkinds(case), labels)
        img1 = pl.snapshot(buf)
        storage = int(np.frombuffer(buf.buffer, dtype="int8").ctypes.data) if len(buf.buffer) else 0
        expected_img = bytearray(img0)
        for i, e in enumerate(expect):
            slot = rec[SLOT * i: SLOT * (i + 1)].tobytes()
            if e[0] == "scalar":
                t, v = e[1], e[2]
                want = scalar_bytes(t, v)
                if slot[: len(want)] != want:
                    return fail("scalar_not_faithful", f"a{i} ({t}) = {v!r}: kernel saw bytes {slot[:len(want)].hex()}, expected {want.hex()}", t, labels)
            elif e[0] == "nd":
                t, v, base = e[1], e[2], e[3]
                addr = int.from_bytes(slot[:8], "little")
                want_addr = v.__array_interface__["data"][0]
                isz = v.dtype.itemsize
                if addr != want_addr:
                    return fail("pointer_not_first_element", f"a{i} ({case['args'][i]['form']}): kernel received {addr:#x}, first element is at {want_addr:#x} (delta {addr - want_addr})", case["args"][i]["form"], labels)
                pos = want_addr - base.__array_interface__["data"][0]
                first0 = nd0[i][pos: pos + isz]
                if slot[8: 8 + isz] != first0:
                    return fail("pointer_content", f"a{i}: bytes behind the pointer {slot[8:8 + isz].hex()}, first element {first0.hex()}", case["args"][i]["form"], labels)
                # the flipped byte: exactly the first byte of the first element of the view
                exp_base = bytearray(nd0[i])
                exp_base[pos] ^= 0x5A
                if _membytes(base) != bytes(exp_base):
                    return fail("write_through_pointer_misplaced", f"a{i} ({case['args'][i]['form']}): the byte written by the kernel is not at the first element only", case["args"][i]["form"], labels)
            elif e[0] == "xarr":
                t, x, spec = e[1], e[2], e[3]
                addr = int.from_bytes(slot[:8], "little")
                lay = layout.array_layout(spec, img0, int(x._offset))
                want_addr = storage + int(x._offset) + lay["data_offset"]
                isz = np.dtype(NPT[t]).itemsize
                if addr != want_addr:
                    return fail("pointer_not_first_element", f"a{i} (xobject array at offset {x._offset}): kernel received {addr:#x}, first element is at {want_addr:#x} (delta {addr - want_addr})", case["args"][i]["form"], labels)
                o = int(x._offset) + lay["data_offset"]
                if slot[8: 8 + isz] != img0[o: o + isz]:
                    return fail("pointer_content", f"a{i}: bytes behind the pointer differ from the array's first element", case["args"][i]["form"], labels)
                expected_img[o] ^= 0x5A
            else:
                x = e[2]
                addr = int.from_bytes(slot[:8], "little")
                want_addr = storage + int(x._offset)
                if addr != want_addr:
                    return fail("xobject_pointer", f"{stage}: a{i} ({case['args'][i]['form']} at offset {x._offset}): kernel received {addr:#x}, object is at {want_addr:#x} (delta {addr - want_addr})", "grown" if "after" in stage else "", labels)
                o = int(x._offset)
                if slot[8:16] != img0[o: o + 8]:
                    return fail("xobject_content", f"a{i}: first 8 bytes seen by the kernel differ from the object's", "", labels)
                expected_img[o + 1] ^= 0xA5
        if bytes(expected_img) != img1:
            bad = [k for k in range(min(len(img1), len(expected_img))) if img1[k] != expected_img[k]]
            return fail("buffer_changes_misplaced", f"bytes {bad[:8]} of the buffer differ from 'one flipped byte per pointer argument'", "", labels)
        if rec[SLOT * nargs:].tobytes() != b"\xEE" * 8:
            return fail("record_overrun", "bytes behind the record changed", "", labels)
        if case["ret"] is not None:
            ra = case["args"][case["ret"]]
            want = scalar_bytes(ra["t"], ra["v"])
            got = sut(lambda: np.array([res], dtype=NPT[ra["t"]]).tobytes())
            if is_raised(got) or got != want:
                return fail("return_value", f"returned {res!r}, argument was {ra['v']!r} ({ra['t']})", ra["t"], labels)
        elif res is not None:
            return fail("return_value", f"void kernel returned {res!r}", "void", labels)
        return None

    if case["grow"] and case.get("twice", True):
        labels.add("called_before_and_after_growth")
        r0 = verify_call("call before growth")
        if r0 is not None:
            return r0
    for g in case["grow"]:
        gr = sut(buf.grow, g)
        if is_raised(gr):
            return fail("grow_raised", f"{gr}", gr.key, labels)
        labels.add("after_growth")
        nontrivial = nontrivial or any(e[0] in ("xobj", "xarr") for e in expect)
    r1 = verify_call("call after growth" if case["grow"] else "call")
    if r1 is not None:
        return r1
    return Outcome(True, labels=sorted(labels), nontrivial=nontrivial)


def _owner(v):
    """the array that owns the memory a view looks at"""
    while isinstance(v.base, np.ndarray):
        v = v.base
    return v


def _membytes(root):
    """bytes of an owning (C- or F-contiguous) array in memory order"""
    return root.tobytes(order="A")


def _argkinds(case):
    return ",".join(sorted({a["k"] + ":" + a.get("form", "") for a in case["args"]}))
