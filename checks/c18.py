"""C18 — hybrid objects mirror their buffer data; copy/move keep value and ownership.

Model-based histories over generated HybridClass definitions.  The model is a
nested dict per top-level object; shared referents are shared Python dicts.
"""

import copy

import numpy as np
from hypothesis import strategies as st

from vlib.core import Outcome, fail, sut, is_raised
from vlib import typegen as tg
from vlib import mat, hybgen, assign

ID = "C18"
LEVEL = "exploration"
SHRINK_BUDGET = 250
RULE = (
    "case = generated HybridClass definition (fields: 10 scalar kinds, String, scalar arrays 1-3 dims static/dynamic "
    "any axis order, nested hybrid classes, Ref to hybrid classes, _rename, defaults) x initial value x placement "
    "(default context / explicit buffer of given capacity) x history (<=12 quick / <=40 thorough steps) over {set "
    "scalar/string field at any nesting depth through the dressed attributes, set array element / slice / whole "
    "array, set a hybrid field from a dict, set a Ref field to None or data, copy (default, same buffer, other buffer, "
    "other context), move (other buffer, other context; also attempted on nested parts, on objects with references "
    "and on objects shared through a reference), assign a hybrid object to a hybrid-typed field (source in the same "
    "buffer, another buffer, another context, or the field's own current object), write through the source "
    "afterwards, read all array attributes, make the object's buffer grow}. Oracle after EVERY step, for every live top-level object: attributes read through the Python names "
    "== the underlying struct read through the xobject API == the model (mirror under renaming); every dressed "
    "nested part sits at the offset of the corresponding struct field in the parent's buffer; non-reference "
    "assignment is an independent copy (later source writes do not show), same-buffer reference assignment shares "
    "(later writes show, the attribute is the assigned object) and across buffers raises MemoryError; copy is equal, "
    "lives where requested and is independent; move keeps the value, puts the object and all nested parts in the "
    "target buffer; move of nested parts, of objects whose class contains references and of objects shared through a "
    "reference raises MemoryError and changes nothing. Non-trivial = the class nests another class or a reference "
    "and the history has >=1 copy/move/nested assignment; distinct = distinct case JSON."
)
ASSUMPTIONS = [
    "assigned objects are instances of the field's own hybrid class",
    "copying an object with references inside the same buffer shares the referents (as struct copies do, C09); elsewhere they are duplicated",
    "fitting writes; values in range; strings without NUL",
    "BufferNumpy only: copy()/move() create buffers through the context, which hands out BufferNumpy, and buffers of one context are of one kind",
]


def budget(tier):
    return {"examples": 1000 if tier == "quick" else 10000}


def essential_labels(tier):
    return ["op:set_leaf", "op:set_leaf_nested", "op:set_array", "op:copy", "op:move_ok", "op:move_refused_nested", "op:move_refused_refs", "op:assign_copy",
            "op:assign_ref_share", "op:assign_ref_foreign_refused", "op:write_source_after_assign", "has_rename", "field:ref", "field:hybrid", "op:set_ref_none", "op:grow", "op:refarr_data", "op:refarr_existing", "field:refarr"]


# --------------------------------------------------------------------------
# generation
# --------------------------------------------------------------------------


@st.composite
def cases(draw, tier):
    cfg = hybgen.HCfg(tier, allow_refarr=True)
    h = draw(hybgen.hspecs(cfg))
    # by construction at least one nested class in 3/4 of the cases
    if draw(st.integers(0, 3)) > 0 and len(hybgen.subclasses(h)) == 1:
        inner = draw(hybgen.hspecs(hybgen.HCfg(tier, max_depth=0)))
        for hh in hybgen.subclasses(inner):
            hh["name"] = "N" + hh["name"]
        n = len(h["fields"])
        h["fields"].append({"n": f"f{n}", "t": {"k": "hybrid", "h": inner}})
        if draw(st.booleans()):
            h["fields"].append({"n": f"f{n + 1}", "t": {"k": "ref", "h": inner}})
    ra = [f for f in h["fields"] if f["t"]["k"] == "refarr"]
    if draw(st.integers(0, 3)) == 0:
        # two reference fields that can denote one and the same array
        import copy as _copy

        if not ra:
            h["fields"].append({"n": f"f{len(h['fields'])}", "t": {"k": "refarr", "arr": {"k": "array", "name": None, "item": {"k": "scalar", "t": draw(st.sampled_from(tg.SCALARS))}, "shape": [None], "order": [0]}}})
            ra = [h["fields"][-1]]
        h["fields"].append({"n": f"f{len(h['fields'])}", "t": _copy.deepcopy(ra[0]["t"])})
    value = hybgen.hvalues(draw, h)
    nops = draw(st.integers(1, 40 if tier == "thorough" else 12))
    ops = []
    for _ in range(nops):
        kind = draw(st.sampled_from(["set", "set", "set", "set_array", "set_array", "set_dict", "set_ref", "copy", "copy", "move", "move", "assign", "assign", "assign", "write_src", "grow", "read_arrays", "refarr", "refarr"]))
        op = {"op": kind, "o": draw(st.integers(0, 50)), "i": draw(st.integers(0, 1000)), "j": draw(st.integers(0, 1000)), "w": draw(assign.op_specs)}
        if kind == "copy":
            op["dest"] = draw(st.sampled_from(["default", "default", "same", "B", "C", "Cctx", "contradictory"]))
        elif kind == "move":
            op["dest"] = draw(st.sampled_from(["B", "C", "Cctx", "A"]))
            op["nested"] = draw(st.integers(0, 2)) == 0
        elif kind == "assign":
            op["src"] = draw(st.sampled_from(["new_same", "new_same", "new_B", "new_C", "existing", "self_child"]))
        elif kind == "set_array":
            op["mode"] = draw(st.sampled_from(["elem", "slice", "whole"]))
        elif kind == "set_ref":
            op["mode"] = draw(st.sampled_from(["none", "data"]))
        elif kind == "refarr":
            op["mode"] = draw(st.sampled_from(["none", "data", "data", "existing", "existing", "write"]))
        ops.append(op)
    return {"h": h, "value": value, "ops": ops, "place": draw(st.sampled_from(["default", "numpy", "numpy"])), "cap": draw(st.sampled_from([0, 64, 1024])),
            "inside_region": draw(st.integers(0, 3)) == 0}


def strategy(tier):
    return cases(tier)


# --------------------------------------------------------------------------
# model helpers
# --------------------------------------------------------------------------


def fresh_hvalue(h, w, salt):
    out = {}
    for i, f in enumerate(h["fields"]):
        t = f["t"]
        s = salt + 3 * i + 1
        if t["k"] == "scalar":
            out[f["n"]] = assign.fit_value(t, dict(w, int=w["int"] + s), 0)
        elif t["k"] == "string":
            out[f["n"]] = (w["text"] + "xyz")[: 1 + (w["li"] + s) % 5]
        elif t["k"] == "array":
            shape = [(1 + (w["li"] + s + a) % 3) if d is None else d for a, d in enumerate(t["shape"])]
            n = int(np.prod(shape))
            out[f["n"]] = {"shape": shape, "flat": [assign.fit_value(t["item"], dict(w, int=w["int"] + s + 11 * k, float=float(k + s % 7)), 0) for k in range(n)]}
        elif t["k"] == "hybrid":
            out[f["n"]] = fresh_hvalue(t["h"], w, s)
        elif t["k"] == "refarr":
            n_ = (w["li"] + s) % 4
            out[f["n"]] = None if n_ == 0 else {"shape": [n_], "flat": [assign.fit_value(t["arr"]["item"], dict(w, int=w["int"] + s + 5 * k, float=float(k + 1)), 0) for k in range(n_)]}
        else:
            out[f["n"]] = None if (w["li"] + s) % 2 == 0 else fresh_hvalue(t["h"], w, s)
    return out


def copy_model(h, v, same_buffer):
    out = {}
    for f in h["fields"]:
        t = f["t"]
        x = v[f["n"]]
        if t["k"] == "hybrid":
            out[f["n"]] = copy_model(t["h"], x, same_buffer)
        elif t["k"] == "ref":
            if x is None:
                out[f["n"]] = None
            else:
                out[f["n"]] = x if same_buffer else copy_model(t["h"], x, False)
        elif t["k"] == "refarr":
            out[f["n"]] = x if (same_buffer and x is not None) else copy.deepcopy(x)
        else:
            out[f["n"]] = copy.deepcopy(x)
    return out


def class_has_refs(h):
    return any(f["t"]["k"] in ("ref", "refarr") or (f["t"]["k"] == "hybrid" and class_has_refs(f["t"]["h"])) for f in h["fields"])


def containers(hn, model, path=()):
    """(path of xo names, HNode, model dict) of this object and of every nested hybrid part reachable
    through non-ref hybrid fields and non-null refs"""
    out = [(list(path), hn, model)]
    for f in hn.h["fields"]:
        if f["t"]["k"] == "hybrid":
            out += containers(hn.kids[f["n"]], model[f["n"]], path + (f["n"],))
        elif f["t"]["k"] == "ref" and model[f["n"]] is not None:
            out += containers(hn.kids[f["n"]], model[f["n"]], path + (f["n"],))
    return out


def reach(obj, hn, path):
    """dressed (or raw) object at a path of xo field names, through the Python attribute names"""
    for name in path:
        # an undressed struct view (a Ref field that was bound from plain data) only knows the xo names
        obj = getattr(obj, hybgen.pyname(hn.h, name) if hasattr(obj, "_xobject") else name)
        hn = hn.kids[name]
    return obj, hn


def through_ref(hn, path):
    for name in path:
        for f in hn.h["fields"]:
            if f["n"] == name and f["t"]["k"] == "ref":
                return True
        hn = hn.kids[name]
    return False


# --------------------------------------------------------------------------


def run_case(case):
    import xobjects as xo
    from xobjects.context_cpu import BufferNumpy, BufferByteArray

    h = case["h"]
    labels = set(hybgen.hybrid_labels(h))
    hn = hybgen.materialise(h)
    ctx = xo.ContextCpu()
    if case["place"] == "default":
        A = None
    else:
        A = (BufferNumpy if case["place"] == "numpy" else BufferByteArray)(capacity=case["cap"], context=ctx)
        A.allocate(16)
    Bbuf = (BufferByteArray if case["place"] == "bytearray" else BufferNumpy)(capacity=64, context=ctx if A is not None else xo.context_default)
    ctxC = xo.ContextCpu()
    Cbuf = BufferNumpy(capacity=64, context=ctxC)
    kw = sut(hybgen.init_kwargs, hn, case["value"])
    owned_region = None
    if A is not None and case.get("inside_region"):
        # the object is placed at an explicit offset INSIDE a larger region the caller allocated and keeps: it does not own
        # its storage (moving it away later must not hand that storage out again)
        probe = sut(lambda: hn.cls(**kw))
        if is_raised(probe):
            return fail("construct_raised", f"{probe}", probe.key, labels)
        sz_ = int(probe._xobject._size)
        reg_ = int(A.allocate(sz_ + 32))
        owned_region = (reg_, reg_ + sz_ + 32)
        obj = sut(lambda: hn.cls(**kw, _buffer=A, _offset=reg_ + 16))
        labels.add("object_inside_a_region_of_the_caller")
    else:
        obj = sut(lambda: hn.cls(**kw, **({"_buffer": A} if A is not None else {})))
    if is_raised(obj):
        return fail("construct_raised", f"{obj}", obj.key, labels)
    if A is None:
        A = obj._buffer
    entries = [{"obj": obj, "hn": hn, "model": hybgen.expected(h, case["value"]), "movable": True}]
    did_structural = False

    def check_all(step):
        for ei, e in enumerate(entries):
            o, n, m = e["obj"], e["hn"], e["model"]
            spec = n.node.spec
            ga = sut(hybgen.hwalk, o, n)
            if is_raised(ga):
                return fail("attr_read_raised", f"{step}: object {ei}: {ga}", ga.key, labels)
            gx = sut(mat.walk, o._xobject, n.node)
            if is_raised(gx):
                return fail("xobject_read_raised", f"{step}: object {ei}: {gx}", gx.key, labels)
            d = tg.first_diff(spec, gx, ga)
            if d:
                return fail("attributes_do_not_mirror_buffer", f"{step}: object {ei}: attribute vs buffer: {d}", step.split(" ")[-1], labels)
            d = tg.first_diff(spec, m, gx)
            if d:
                return fail("value", f"{step}: object {ei}: {d}", step.split(" ")[-1], labels)
            # dressed parts live inside their parent
            for path, cn, cm in containers(n, m):
                if not path:
                    continue
                rc = sut(reach, o, n, path)
                if is_raised(rc):
                    return fail("dressed_part_unreachable", f"{step}: object {ei} part {'.'.join(path)}: {rc}", rc.key, labels)
                child = rc[0]
                parent, pn = reach(o, n, path[:-1])
                px = parent._xobject if hasattr(parent, "_xobject") else parent
                fx = getattr(px, path[-1])
                cx = child._xobject if hasattr(child, "_xobject") else child
                if fx is None or cx is None:
                    return fail("dressed_part_missing", f"{step}: object {ei} part {path}", "", labels)
                if int(cx._offset) != int(fx._offset) or cx._buffer is not fx._buffer:
                    return fail("dressed_part_elsewhere", f"{step}: object {ei} part {'.'.join(path)}: dressed object at {cx._offset}, struct field at {fx._offset}, same buffer: {cx._buffer is fx._buffer}", "ref" if through_ref(n, path) else "nested", labels)
        return None

    r = check_all("initial")
    if r:
        return r

    def new_source(kn, w, salt, where, target_buf):
        v = fresh_hvalue(kn.h, w, salt)
        buf = {"same": target_buf, "B": Bbuf, "C": Cbuf}[where]
        o = kn.cls(**hybgen.init_kwargs(kn, v), _buffer=buf)
        return o, v

    for si, op in enumerate(case["ops"]):
        kind = op["op"]
        step = f"step{si} {kind}"
        e = entries[op["o"] % len(entries)]
        o, n, m = e["obj"], e["hn"], e["model"]
        spec = n.node.spec
        conts = containers(n, m)
        if kind == "set":
            leaves = []
            for path, cn, cm in conts:
                for f in cn.h["fields"]:
                    if f["t"]["k"] in ("scalar", "string"):
                        leaves.append((path, cn, cm, f))
            if not leaves:
                continue
            path, cn, cm, f = leaves[op["i"] % len(leaves)]
            new = assign.fit_value(f["t"], op["w"], cm[f["n"]])
            tgt = sut(reach, o, n, path)
            if is_raised(tgt):
                return fail("reach_raised", f"{step}: {tgt}", tgt.key, labels)
            if not hasattr(tgt[0], "_xobject") and not path:
                continue
            r = sut(setattr, tgt[0], hybgen.pyname(cn.h, f["n"]) if hasattr(tgt[0], "_xobject") else f["n"], new)
            if is_raised(r):
                return fail("set_raised", f"{step} {'.'.join(path + [f['n']])}: {r}", r.key, labels)
            cm[f["n"]] = new
            labels.add("op:set_leaf_nested" if path else "op:set_leaf")
            if through_ref(n, path):
                labels.add("op:set_leaf_through_ref")
        elif kind == "set_array":
            arrs = []
            for path, cn, cm in conts:
                for f in cn.h["fields"]:
                    if f["t"]["k"] == "array" and cm[f["n"]]["flat"]:
                        arrs.append((path, cn, cm, f))
            if not arrs:
                continue
            path, cn, cm, f = arrs[op["i"] % len(arrs)]
            tgt = sut(reach, o, n, path)
            if is_raised(tgt):
                return fail("reach_raised", f"{step}: {tgt}", tgt.key, labels)
            if not hasattr(tgt[0], "_xobject"):
                continue  # an undressed struct view: its array fields are xobject arrays (C10 territory)
            cur = cm[f["n"]]
            it = f["t"]["item"]
            shape = cur["shape"]
            py = hybgen.pyname(cn.h, f["n"])
            if op["mode"] == "elem":
                k = op["j"] % len(cur["flat"])
                idx = tg.indices(shape)[k]
                new = assign.fit_value(it, op["w"], cur["flat"][k])
                r = sut(lambda: getattr(tgt[0], py).__setitem__(idx, new))
                if not is_raised(r):
                    cur["flat"][k] = new
            else:
                vals = [assign.fit_value(it, dict(op["w"], int=op["w"]["int"] + 13 * k, float=float(k)), 0) for k in range(len(cur["flat"]))]
                arr = np.array(vals, dtype=mat.NP_DTYPES[it["t"]]).reshape(shape)
                if op["mode"] == "slice":
                    r = sut(lambda: getattr(tgt[0], py).__setitem__(Ellipsis, arr))
                else:
                    r = sut(setattr, tgt[0], py, arr)
                if not is_raised(r):
                    cur["flat"][:] = vals
            if is_raised(r):
                return fail("set_array_raised", f"{step} {'.'.join(path + [f['n']])} mode {op['mode']}: {r}", op["mode"] + "|" + r.key, labels)
            labels.add("op:set_array")
            labels.add("op:set_array_" + op["mode"])
        elif kind == "set_dict":
            slots = [(path, cn, cm, f) for path, cn, cm in conts for f in cn.h["fields"] if f["t"]["k"] == "hybrid"]
            if not slots:
                continue
            path, cn, cm, f = slots[op["i"] % len(slots)]
            kn = cn.kids[f["n"]]
            if class_has_dynamic(kn.h):
                continue  # a dict of another size does not fit in place (C11)
            tgt = sut(reach, o, n, path)
            if is_raised(tgt) or not hasattr(tgt[0], "_xobject"):
                continue
            v = fresh_hvalue(kn.h, op["w"], si)
            r = sut(setattr, tgt[0], hybgen.pyname(cn.h, f["n"]), hybgen.plain(f["t"], v, kn))
            if is_raised(r):
                return fail("set_dict_raised", f"{step} {'.'.join(path + [f['n']])}: {r}", r.key, labels)
            _assign_into(cm[f["n"]], v)
            labels.add("op:set_hybrid_from_dict")
        elif kind == "set_ref":
            slots = [(path, cn, cm, f) for path, cn, cm in conts for f in cn.h["fields"] if f["t"]["k"] == "ref"]
            if not slots:
                continue
            path, cn, cm, f = slots[op["i"] % len(slots)]
            tgt = sut(reach, o, n, path)
            if is_raised(tgt) or not hasattr(tgt[0], "_xobject"):
                continue
            kn = cn.kids[f["n"]]
            if op["mode"] == "none":
                r = sut(setattr, tgt[0], hybgen.pyname(cn.h, f["n"]), None)
                newv = None
                labels.add("op:set_ref_none")
            else:
                newv = fresh_hvalue(kn.h, op["w"], si)
                r = sut(setattr, tgt[0], hybgen.pyname(cn.h, f["n"]), hybgen.plain(f["t"], newv, kn))
                labels.add("op:set_ref_data")
            if is_raised(r):
                return fail("set_ref_raised", f"{step} {'.'.join(path + [f['n']])} <- {op['mode']}: {r}", r.key, labels)
            cm[f["n"]] = newv
        elif kind == "copy":
            dest = op["dest"]
            kwargs = {}
            if dest == "same":
                kwargs["_buffer"] = o._buffer
            elif dest == "B":
                kwargs["_buffer"] = Bbuf
            elif dest == "C":
                kwargs["_buffer"] = Cbuf
            elif dest == "Cctx":
                kwargs["_context"] = ctxC
            elif dest == "contradictory":
                # a context together with a buffer of ANOTHER context: cannot be honoured, must be refused (nothing changes:
                # the invariant after the step re-reads every object)
                other_buf = Bbuf if Bbuf.context is not ctxC else Cbuf
                c = sut(lambda: o.copy(_context=ctxC, _buffer=other_buf))
                if not is_raised(c):
                    return fail("contradictory_copy_accepted", f"{step}: copy(_context=X, _buffer=<buffer of another context>) returned an object in {'the buffer' if c._buffer is other_buf else 'another place'}", "", labels)
                labels.add("op:copy_contradictory_refused")
                r = check_all(step)
                if r:
                    return r
                continue
            c = sut(lambda: o.copy(**kwargs))
            if is_raised(c):
                return fail("copy_raised", f"{step} dest {dest}: {c}", dest + "|" + r_key(c), labels)
            if "_buffer" in kwargs and c._buffer is not kwargs["_buffer"]:
                return fail("copy_wrong_buffer", f"{step}: copy(_buffer=...) lives elsewhere", dest, labels)
            if dest == "Cctx" and c._buffer.context is not ctxC:
                return fail("copy_wrong_context", f"{step}: copy(_context=ctx) lives in another context", dest, labels)
            if dest == "default" and (c._buffer.context is not o._buffer.context):
                return fail("copy_wrong_context", f"{step}: copy() left the object's context", dest, labels)
            if c._xobject._offset == o._xobject._offset and c._buffer is o._buffer:
                return fail("copy_same_storage", f"{step}: the copy occupies the original's bytes", dest, labels)
            # references are shared only when the caller asked for the original's own buffer; a copy without target is independent
            entries.append({"obj": c, "hn": n, "model": copy_model(n.h, m, "_buffer" in kwargs and kwargs["_buffer"] is o._buffer), "movable": True})
            labels.add("op:copy")
            labels.add("op:copy_" + dest)
            did_structural = True
        elif kind == "move":
            dest = op["dest"]
            kwargs = {"B": {"_buffer": Bbuf}, "C": {"_buffer": Cbuf}, "Cctx": {"_context": ctxC}, "A": {"_buffer": A}}[dest]
            nested = [c_ for c_ in conts if c_[0]]
            if op["nested"] and nested:
                path, cn, cm = nested[op["i"] % len(nested)]
                tgt = sut(reach, o, n, path)
                if is_raised(tgt) or not hasattr(tgt[0], "_xobject"):
                    continue
                before = (tgt[0]._buffer, int(tgt[0]._offset))
                r = sut(lambda: tgt[0].move(**kwargs))
                if not (is_raised(r) and r.type == "MemoryError"):
                    return fail("nested_move_not_refused", f"{step}: move of the nested part {'.'.join(path)} gave {r!r}", "ref" if through_ref(n, path) else "nested", labels)
                if (tgt[0]._buffer, int(tgt[0]._offset)) != before:
                    return fail("refused_move_changed_object", f"{step}: nested part {path}", "", labels)
                labels.add("op:move_refused_nested")
            else:
                refuse = class_has_refs(n.h) or not e["movable"]
                before = (o._buffer, int(o._offset))
                r = sut(lambda: o.move(**kwargs))
                if refuse:
                    if not (is_raised(r) and r.type == "MemoryError"):
                        return fail("move_not_refused", f"{step}: object with {'references' if class_has_refs(n.h) else 'a sharing holder'} moved: {r!r}", "refs" if class_has_refs(n.h) else "shared", labels)
                    if (o._buffer, int(o._offset)) != before:
                        return fail("refused_move_changed_object", f"{step}", "", labels)
                    labels.add("op:move_refused_refs" if class_has_refs(n.h) else "op:move_refused_shared")
                else:
                    if is_raised(r):
                        return fail("move_raised", f"{step} dest {dest}: {r}", dest + "|" + r.key, labels)
                    if "_buffer" in kwargs and o._buffer is not kwargs["_buffer"]:
                        return fail("move_wrong_buffer", f"{step}: after move(_buffer=...) the object lives elsewhere", dest, labels)
                    if dest == "Cctx" and o._buffer.context is not ctxC:
                        return fail("move_wrong_context", f"{step}", dest, labels)
                    labels.add("op:move_ok")
                    did_structural = True
                    if owned_region is not None and e is entries[0] and before[0] is A:
                        p_ = sut(A.allocate, 8)
                        if is_raised(p_):
                            return fail("allocate_raised", f"{step}: {p_}", p_.key, labels)
                        if owned_region[0] <= int(p_) < owned_region[1]:
                            return fail("moved_object_storage_handed_out_again", f"{step}: the object lived at an explicit offset inside the caller's region {owned_region}; after move() allocate(8) on the old buffer returned {int(p_)}, inside that region", "", labels)
                        labels.add("allocation_after_move_away_from_callers_region")
        elif kind == "assign":
            slots = [(path, cn, cm, f) for path, cn, cm in conts for f in cn.h["fields"] if f["t"]["k"] in ("hybrid", "ref")]
            if not slots:
                continue
            path, cn, cm, f = slots[op["i"] % len(slots)]
            tgt = sut(reach, o, n, path)
            if is_raised(tgt) or not hasattr(tgt[0], "_xobject"):
                continue
            cont = tgt[0]
            kn = cn.kids[f["n"]]
            py = hybgen.pyname(cn.h, f["n"])
            isref = f["t"]["k"] == "ref"
            src_kind = op["src"]
            src_entry = None
            if src_kind == "existing":
                cands = [x for x in entries if x["hn"].cls is kn.cls and x["obj"] is not o]
                if not cands:
                    src_kind = "new_same"
                else:
                    src_entry = cands[op["j"] % len(cands)]
            if src_kind == "self_child":
                cur = getattr(cont, py)
                if cur is None or not hasattr(cur, "_xobject"):
                    src_kind = "new_same"
                else:
                    r = sut(setattr, cont, py, cur)
                    if is_raised(r):
                        return fail("self_assign_raised", f"{step} {'.'.join(path + [f['n']])}: {r}", r.key, labels)
                    labels.add("op:assign_self_child")
            if src_kind.startswith("new_"):
                where = {"new_same": "same", "new_B": "B", "new_C": "C"}[src_kind]
                made = sut(new_source, kn, op["w"], si, where, cont._buffer)
                if is_raised(made):
                    return fail("construct_raised", f"{step}: source: {made}", made.key, labels)
                src_entry = {"obj": made[0], "hn": kn, "model": made[1], "movable": True}
                entries.append(src_entry)
            if src_entry is not None:
                s = src_entry["obj"]
                same_buf = s._buffer is cont._buffer
                if class_has_dynamic(kn.h) and not isref and not _same_layout(kn.h, cm[f["n"]], src_entry["model"]):
                    # a dynamic nested object of another size cannot be copied in place (that is C11's matter)
                    if src_kind.startswith("new_"):
                        pass
                    r = ("skip",)
                else:
                    r = sut(setattr, cont, py, s)
                if r == ("skip",):
                    pass
                elif isref:
                    if same_buf:
                        if is_raised(r):
                            return fail("ref_assign_raised", f"{step} {'.'.join(path + [f['n']])}: {r}", r.key, labels)
                        cm[f["n"]] = src_entry["model"]  # shared
                        src_entry["movable"] = False
                        if getattr(cont, py) is not s:
                            return fail("ref_assign_not_shared", f"{step}: the attribute is not the assigned object", "", labels)
                        labels.add("op:assign_ref_share")
                    else:
                        if not (is_raised(r) and r.type == "MemoryError"):
                            return fail("ref_across_buffers_not_refused", f"{step} {'.'.join(path + [f['n']])}: {r!r}", "", labels)
                        labels.add("op:assign_ref_foreign_refused")
                else:
                    if is_raised(r):
                        return fail("assign_raised", f"{step} {'.'.join(path + [f['n']])} <- object in {'same' if same_buf else 'other'} buffer: {r}", r.key, labels)
                    new_model = copy_model(kn.h, src_entry["model"], same_buf)
                    cm[f["n"]] = new_model
                    if getattr(cont, py) is s:
                        return fail("assign_not_copied", f"{step}: the non-reference field holds the assigned object itself", "", labels)
                    labels.add("op:assign_copy")
                    labels.add("op:assign_copy_" + ("same_buffer" if same_buf else "other_buffer"))
                did_structural = True
        elif kind == "read_arrays":
            # touch every array attribute (a dressing layer that caches views must not serve them after the storage moved)
            for path, cn, cm in conts:
                tgt = sut(reach, o, n, path)
                if is_raised(tgt) or not hasattr(tgt[0], "_xobject"):
                    continue
                for f in cn.h["fields"]:
                    if f["t"]["k"] == "array":
                        sut(getattr, tgt[0], hybgen.pyname(cn.h, f["n"]))
            labels.add("op:read_arrays")
        elif kind == "grow":
            b = o._buffer
            cap0 = int(b.capacity)
            r = sut(b.allocate, int(b.get_free()) + 1 + op["i"] % 64)
            if is_raised(r):
                return fail("grow_raised", f"{step}: {r}", r.key, labels)
            if int(b.capacity) > cap0:
                labels.add("op:grow")
        elif kind == "refarr":
            slots = [(path, cn, cm, f) for path, cn, cm in conts for f in cn.h["fields"] if f["t"]["k"] == "refarr"]
            if not slots:
                continue
            path, cn, cm, f = slots[op["i"] % len(slots)]
            tgt = sut(reach, o, n, path)
            if is_raised(tgt) or not hasattr(tgt[0], "_xobject"):
                continue
            cont = tgt[0]
            py = hybgen.pyname(cn.h, f["n"])
            it = f["t"]["arr"]["item"]
            anode = [k for g, k in zip(cn.h["fields"], cn.node.kids) if g["n"] == f["n"]][0].kids[0]
            mode = op["mode"]
            if mode == "none":
                r = sut(setattr, cont, py, None)
                if is_raised(r):
                    return fail("set_ref_raised", f"{step} {'.'.join(path + [f['n']])} <- None: {r}", "refarr|" + r.key, labels)
                cm[f["n"]] = None
                labels.add("op:refarr_none")
            elif mode == "data":
                # plain data: a NEW independent array object; whatever the reference denoted before (possibly shared with
                # another reference or a stand-alone array) is left alone
                k_ = 1 + op["j"] % 4
                vals = [assign.fit_value(it, dict(op["w"], int=op["w"]["int"] + 3 * q, float=float(q) + 0.5), 0) for q in range(k_)]
                arg = vals if op["j"] % 2 else np.array(vals, dtype=mat.NP_DTYPES[it["t"]])
                r = sut(setattr, cont, py, arg)
                if is_raised(r):
                    return fail("set_ref_raised", f"{step} {'.'.join(path + [f['n']])} <- data of length {k_}: {r}", "refarr|" + r.key, labels)
                cm[f["n"]] = {"shape": [k_], "flat": vals}
                labels.add("op:refarr_data")
            elif mode == "existing":
                # an existing array of the very class in the same buffer: shared (also by a second reference field of the class)
                k_ = 1 + op["j"] % 3
                vals = [assign.fit_value(it, dict(op["w"], int=op["w"]["int"] + 11 * q, float=float(q) - 0.25), 0) for q in range(k_)]
                arr = sut(anode.cls, vals, _buffer=cont._buffer)
                if is_raised(arr):
                    return fail("construct_raised", f"{step}: {arr}", arr.key, labels)
                shared = {"shape": [k_], "flat": vals}
                same_t = [g for g in cn.h["fields"] if g["t"]["k"] == "refarr" and g["t"]["arr"]["item"]["t"] == it["t"]]
                for g in same_t[: 1 + op["j"] % 2]:
                    r = sut(setattr, cont, hybgen.pyname(cn.h, g["n"]), arr)
                    if is_raised(r):
                        return fail("set_ref_raised", f"{step} {g['n']} <- existing array: {r}", "refarr|" + r.key, labels)
                    cm[g["n"]] = shared
                labels.add("op:refarr_existing")
                if len(same_t) > 1 and op["j"] % 2:
                    labels.add("op:refarr_two_references_one_array")
            else:
                cur = cm[f["n"]]
                if cur is None or not cur["flat"]:
                    continue
                q = op["j"] % len(cur["flat"])
                new = assign.fit_value(it, op["w"], cur["flat"][q])
                a_ = sut(getattr, cont, py)
                if is_raised(a_) or a_ is None:
                    return fail("attr_read_raised", f"{step}: {a_}", "refarr", labels)
                r = sut(lambda: a_.__setitem__(q, new))
                if is_raised(r):
                    return fail("set_array_raised", f"{step} {'.'.join(path + [f['n']])}[{q}]: {r}", "refarr|" + r.key, labels)
                cur["flat"][q] = new
                labels.add("op:refarr_write_through")
        elif kind == "write_src":
            # write through any top-level object other than the first: sources, copies
            if len(entries) < 2:
                continue
            e2 = entries[1 + op["i"] % (len(entries) - 1)]
            leaves = [f for f in e2["hn"].h["fields"] if f["t"]["k"] in ("scalar", "string")]
            if not leaves:
                continue
            f = leaves[op["j"] % len(leaves)]
            new = assign.fit_value(f["t"], op["w"], e2["model"][f["n"]])
            r = sut(setattr, e2["obj"], hybgen.pyname(e2["hn"].h, f["n"]), new)
            if is_raised(r):
                return fail("set_raised", f"{step}: {r}", r.key, labels)
            e2["model"][f["n"]] = new
            labels.add("op:write_source_after_assign")
        r = check_all(step)
        if r:
            return r
    nontrivial = bool(labels & {"field:hybrid", "field:ref"}) and did_structural
    return Outcome(True, labels=sorted(labels), nontrivial=nontrivial)


def r_key(r):
    return r.key


def _assign_into(dst, src):
    """in-place update of a nested model dict (keeps sharing of the container itself)"""
    for k, v in src.items():
        dst[k] = v


def class_has_dynamic(h):
    for f in h["fields"]:
        t = f["t"]
        if t["k"] == "string" or (t["k"] == "array" and any(d is None for d in t["shape"])):
            return True
        if t["k"] == "hybrid" and class_has_dynamic(t["h"]):
            return True
    return False


def _same_layout(h, a, b):
    """two values of a dynamic class occupy the same space iff strings have equal slot sizes and dynamic arrays equal shapes"""
    for f in h["fields"]:
        t = f["t"]
        x, y = a[f["n"]], b[f["n"]]
        if t["k"] == "string":
            if (len(x.encode()) + 9 + 7) // 8 != (len(y.encode()) + 9 + 7) // 8:
                return False
        elif t["k"] == "array" and x["shape"] != y["shape"]:
            return False
        elif t["k"] == "hybrid" and not _same_layout(t["h"], x, y):
            return False
    return True
