"""C19 — dictionary and JSON forms rebuild an equal object."""

import json
import math

import numpy as np
from hypothesis import strategies as st

from vlib.core import Outcome, fail, sut, is_raised
from vlib import typegen as tg
from vlib import mat, hybgen

ID = "C19"
LEVEL = "exploration"
SHRINK_BUDGET = 300
RULE = (
    "three case families. (a) generated HybridClass definitions (fields: 10 scalar kinds, String, scalar arrays 1-3 dims "
    "static/dynamic any axis order, nested hybrid classes, Ref to hybrid classes; optional _rename; declared defaults "
    "and default factories on scalar/string/1-D array fields) x values in which fields are absent, deliberately equal "
    "to their default, or arbitrary. Oracle: H.from_dict(h.to_dict()) read through attributes AND through the "
    "underlying struct equals h and the model (rebuilt in the same or another context; a second to_dict/from_dict "
    "cycle is a fixpoint); every scalar, string or static-array field whose value equals its declared (or implicit "
    "zero) default is absent from the dictionary; the dictionary carries __class__ and nested hybrid fields are "
    "dictionaries carrying theirs. (b) generated reference-free struct / 1-D array types of the grammar x values: "
    "T(x._to_json()) reads back equal to x and to the model, _to_json of the rebuilt object equals the first one, and "
    "the same through json text (JEncoder) where every leaf is JSON-representable. (c) hybrid classes whose fields are typed by "
    "generated reference-free types of the grammar with arrays of STATIC compound items (arrays of structs, arrays of arrays, nested "
    "plain structs declared through HybridClass): H.from_dict(h.to_dict()) read through the underlying struct equals the model. Non-trivial = (a) some field "
    "equals a non-zero default or the class has a nested class/array field, (b) the type nests a compound; distinct = "
    "distinct case JSON."
)
ASSUMPTIONS = [
    "values in range, strings without NUL; hybrid fields without a usable default are always supplied",
    "equality is value equality (a Ref field is compared by the value of its referent; -0.0 equals 0.0, NaN equals NaN)",
    "JSON text round trip only for types without Float32 leaves (json has no float32) and finite floats or NaN/inf as Python's json writes them",
]


def budget(tier):
    return {"examples": 1500 if tier == "quick" else 15000}


def essential_labels(tier):
    return ["fam:hybrid", "fam:json", "fam:typed", "array_of_compound_items_in_hybrid", "has_default", "has_default_factory", "has_rename", "renamed_field_with_default", "value_equals_nonzero_default",
            "field:hybrid", "field:ref", "array_2d", "field_absent", "json_text", "derived_class", "rebuilt_on_dirty_memory", "array_default_declared_as_length"]


@st.composite
def cases(draw, tier):
    if draw(st.integers(0, 2)) > 0:
        cfg = hybgen.HCfg(tier)
        h = draw(hybgen.hspecs(cfg))
        value = hybgen.hvalues(draw, h)
        return {"fam": "hybrid", "h": h, "value": value, "other_ctx": draw(st.booleans()), "via_buffer": draw(st.booleans()), "inherit": draw(st.integers(0, 3)) == 0, "dirty": draw(st.integers(0, 2)) == 0}
    if draw(st.integers(0, 3)) == 0:
        # a hybrid class whose fields are typed by arbitrary reference-free types of the grammar (arrays of structs,
        # arrays of arrays, nested plain structs, strings ...): the struct classes are declared through HybridClass
        cfg = tg.Cfg(tier, allow_refs=False, roots=("struct",))
        spec = draw(tg.type_specs(cfg))
        value = tg._draw_value(draw, spec, cfg)
        return {"fam": "typed", "type": spec, "value": value}
    cfg = tg.Cfg(tier, allow_refs=False, allow_nd=False, allow_orders=False, roots=("struct", "struct", "array"))
    spec = draw(tg.type_specs(cfg))
    value = tg._draw_value(draw, spec, cfg)
    return {"fam": "json", "type": spec, "value": value}


def strategy(tier):
    return cases(tier)


# --------------------------------------------------------------------------


def _is_default(f, v):
    d = hybgen.default_of(f)
    return tg.first_diff(f["t"], d, v) is None if f["t"]["k"] in ("scalar", "string", "array") else False


def _check_dict(h, d, exp, path, labels):
    """structure of the dictionary form: __class__, nesting, elision"""
    if not isinstance(d, dict):
        return ("dict_form", f"{path}: to_dict gave {type(d).__name__}", "")
    if d.get("__class__") != h["name"]:
        return ("dict_class_key", f"{path}: __class__ is {d.get('__class__')!r}, expected {h['name']!r}", "")
    for f in h["fields"]:
        t = f["t"]
        pn = hybgen.pyname(h, f["n"])
        v = exp[f["n"]]
        where = f"{path}.{pn}"
        if t["k"] == "hybrid":
            if pn not in d:
                return ("nested_missing", f"{where}: nested hybrid field missing from the dictionary", "")
            r = _check_dict(t["h"], d[pn], v, where, labels)
            if r:
                return r
        elif t["k"] == "ref":
            if v is not None and pn not in d:
                return ("ref_missing", f"{where}: non-null reference missing from the dictionary", "")
        elif hybgen.has_usable_default(f) and _is_default(f, v):
            nz = tg.first_diff(t, v, {"scalar": 0, "string": ""}.get(t["k"], None)) is not None if t["k"] != "array" else any(x != 0 for x in v["flat"])
            if nz:
                labels.add("value_equals_nonzero_default")
            labels.add("value_equals_default:" + t["k"])
            if pn in d:
                feat = t["k"] + ("|declared" if "default" in f else "|implicit") + ("|renamed" if pn != f["n"] else "") + (f"|{len(t['shape'])}d" if t["k"] == "array" else "")
                return ("default_not_elided", f"{where} = {d[pn]!r} equals its {'declared' if 'default' in f else 'implicit'} default but is stored in the dictionary", feat)
    return None


def run_hybrid(case):
    import xobjects as xo

    h, value = case["h"], case["value"]
    labels = {"fam:hybrid"} | hybgen.hybrid_labels(h)
    base = None
    if case.get("inherit"):
        # the class derives from a hybrid class that declares the same fields with OTHER defaults, and the base class is
        # used (to_dict) first: nothing computed for the base may be taken for the derived class
        import copy as _copy

        hb = _copy.deepcopy(h)
        hb["name"] = "Base" + h["name"]
        for f in hb["fields"]:
            if "default" in f and f["t"]["k"] == "scalar":
                d0 = f["default"]
                f["default"] = (d0 - 1 if d0 > 0 else d0 + 1) if not isinstance(d0, float) else (d0 / 2 + 1.0 if abs(d0) < 1e300 else 1.0)
            elif "default" in f and f["t"]["k"] == "string":
                f["default"] = f["default"] + "B"
        hb["fields"] = [f for f in hb["fields"] if f["t"]["k"] in ("scalar", "string")]
        if hb["fields"]:
            hb["rename"] = {k: v for k, v in hb.get("rename", {}).items() if any(f["n"] == k for f in hb["fields"])}
            bn = sut(hybgen.materialise, hb)
            if not is_raised(bn):
                bo = sut(lambda: bn.cls(**hybgen.init_kwargs(bn, {f["n"]: ({"$absent": 1} if hybgen.has_usable_default(f) else ("s" if f["t"]["k"] == "string" else 0)) for f in hb["fields"]})))
                if not is_raised(bo):
                    sut(bo.to_dict)
                    base = bn.cls
                    labels.add("derived_class")
    hn = hybgen.materialise(h, base=base)
    exp = _nz(hn.node.spec, hybgen.expected(h, value))
    if "$absent" in json.dumps(value):
        labels.add("field_absent")
    kw = sut(hybgen.init_kwargs, hn, value)
    if case.get("via_buffer"):
        buf = xo.ContextCpu().new_buffer(64)
        buf.allocate(24)
        kw["_buffer"] = buf
    obj = sut(lambda: hn.cls(**kw))
    if is_raised(obj):
        return fail("construct_raised", f"{obj}", obj.key, labels)
    spec = hn.node.spec
    got = sut(lambda: _nz(spec, hybgen.hwalk(obj, hn)))
    if is_raised(got):
        return fail("read_raised", f"{got}", got.key, labels)
    d0 = tg.first_diff(spec, exp, got)
    if d0:
        # construction itself is C01/C18 matter; do not judge dict forms on an object that is already wrong
        return fail("construct_value", d0, "construct", labels)
    d = sut(obj.to_dict)
    if is_raised(d):
        return fail("to_dict_raised", f"{d}", d.key + "|" + _arr_feat(h), labels)
    r = _check_dict(h, d, exp, h["name"], labels)
    if r:
        return fail(r[0], r[1], r[2], labels)
    # the dictionary is the form of the object AT THE TIME of to_dict: the object is written afterwards (one element of a
    # numeric array field, put back at the end) and the rebuilt object must still equal the value the dictionary was taken of
    undo = None
    if case.get("via_buffer"):
        for f_ in h["fields"]:
            if f_["t"]["k"] == "array":
                arr_ = sut(lambda: getattr(obj, hybgen.pyname(h, f_["n"])))
                if not is_raised(arr_) and getattr(arr_, "size", 0) > 0:
                    idx_ = tuple(0 for _ in arr_.shape)
                    old_ = arr_[idx_].copy()
                    arr_[idx_] = old_ + 1 if old_ == old_ and abs(float(old_)) < 100 else 0
                    undo = (arr_, idx_, old_)
                    labels.add("object_written_after_to_dict")
                    break
    ctx = xo.ContextCpu() if case.get("other_ctx") else None
    if case.get("dirty"):
        # rebuilt on memory that was used before (defaults must be written, not assumed)
        from vlib import placement as pl

        dbuf = xo.ContextCpu().new_buffer(2048)
        pl.poison_fill(dbuf)
        labels.add("rebuilt_on_dirty_memory")
        back = sut(lambda: hn.cls.from_dict(d, _buffer=dbuf))
        ctx = None
    else:
        back = sut(lambda: hn.cls.from_dict(d, _context=ctx) if ctx is not None else hn.cls.from_dict(d))
    if is_raised(back):
        return fail("from_dict_raised", f"{back}", back.key, labels)
    for how, reader in (("attributes", lambda o: hybgen.hwalk(o, hn)), ("xobject", lambda o: mat.walk(o._xobject, hn.node))):
        g2 = sut(lambda: _nz(spec, reader(back)))
        if is_raised(g2):
            return fail("rebuilt_read_raised", f"{how}: {g2}", g2.key, labels)
        dd = tg.first_diff(spec, exp, g2)
        if dd:
            return fail("rebuilt_differs", f"read through {how}: {dd}", _diff_feat(h, dd), labels)
    if ctx is not None and back._buffer.context is not ctx:
        return fail("rebuilt_wrong_context", "from_dict(_context=ctx) built the object elsewhere", "", labels)
    d2 = sut(back.to_dict)
    if is_raised(d2):
        return fail("to_dict_raised", f"second to_dict: {d2}", d2.key, labels)
    if _canon(d2) != _canon(d):
        return fail("dict_not_fixpoint", f"to_dict of the rebuilt object differs: {_canon(d)[:300]} vs {_canon(d2)[:300]}", "", labels)
    if undo is not None:
        undo[0][undo[1]] = undo[2]
    # the original is untouched by all of this
    g3 = sut(lambda: _nz(spec, hybgen.hwalk(obj, hn)))
    if is_raised(g3) or tg.first_diff(spec, exp, g3):
        return fail("original_changed", f"{g3}", "", labels)
    nontrivial = bool(labels & {"value_equals_nonzero_default", "field:hybrid", "field:array", "field:ref"})
    return Outcome(True, labels=sorted(labels), nontrivial=nontrivial)


def _nz(spec, value):
    """'equal' in the statement is value equality: -0.0 and 0.0 are the same field value"""
    return mat.map_scalars(spec, value, lambda sp, v: 0.0 if isinstance(v, float) and v == 0.0 else v)


def _arr_feat(h):
    lb = hybgen.hybrid_labels(h)
    return "nd_array" if lb & {"array_2d", "array_3d"} else ""


def _diff_feat(h, d):
    return d.split(":")[0].strip(".").split(".")[-1][:0] or "value"


def _canon(x):
    """canonical, NaN-stable, numpy-free text of a dictionary form"""
    def conv(v):
        if isinstance(v, dict):
            return {k: conv(v[k]) for k in sorted(v)}
        if isinstance(v, np.ndarray):
            return ["nd", list(v.shape), [conv(e) for e in v.reshape(-1).tolist()]]
        if isinstance(v, (list, tuple)):
            return [conv(e) for e in v]
        if isinstance(v, (float, np.floating)):
            return ["f", float(v).hex()] if v == v else ["f", "nan"]
        if isinstance(v, (int, np.integer)):
            return int(v)
        return v
    return json.dumps(conv(x), sort_keys=True, default=str)


# --------------------------------------------------------------------------


def _json_textable(spec):
    for s, _ in tg.subspecs(spec):
        if s["k"] == "scalar" and s["t"] == "Float32":
            return False
    return True


def run_json(case):
    import xobjects as xo
    from xobjects.hybrid_class import JEncoder

    spec, value = case["type"], case["value"]
    labels = {"fam:json"} | tg.type_labels(spec)
    node = mat.materialise(spec)
    obj = sut(mat.construct, node, value, mat.Forms([0]), mat.Env(None, None))
    if is_raised(obj):
        return fail("construct_raised", f"{obj}", obj.key, labels)
    got = sut(mat.walk, obj, node)
    if is_raised(got) or tg.first_diff(spec, value, got):
        return fail("construct_value", f"{got if is_raised(got) else tg.first_diff(spec, value, got)}", "construct", labels)
    j = sut(obj._to_json)
    if is_raised(j):
        return fail("to_json_raised", f"{j}", j.key, labels)
    back = sut(node.cls, j)
    if is_raised(back):
        return fail("from_json_raised", f"{node.cls.__name__}(x._to_json()): {back}", back.key, labels)
    g2 = sut(mat.walk, back, node)
    if is_raised(g2):
        return fail("rebuilt_read_raised", f"{g2}", g2.key, labels)
    d = tg.first_diff(spec, value, g2)
    if d:
        return fail("rebuilt_differs", d, "json", labels)
    j2 = sut(back._to_json)
    if is_raised(j2):
        return fail("to_json_raised", f"second: {j2}", j2.key, labels)
    if _canon(j2) != _canon(j):
        return fail("json_not_fixpoint", f"{_canon(j)[:300]} vs {_canon(j2)[:300]}", "", labels)
    if _json_textable(spec):
        labels.add("json_text")
        txt = sut(lambda: json.dumps(j, cls=JEncoder))
        if is_raised(txt):
            return fail("json_text_raised", f"json.dumps(x._to_json(), cls=JEncoder): {txt}", txt.key, labels)
        back3 = sut(lambda: node.cls(json.loads(txt)))
        if is_raised(back3):
            return fail("from_json_text_raised", f"{back3}", back3.key, labels)
        g3 = sut(mat.walk, back3, node)
        if is_raised(g3):
            return fail("rebuilt_read_raised", f"text: {g3}", g3.key, labels)
        d = tg.first_diff(spec, value, g3)
        if d:
            return fail("rebuilt_differs", "through json text: " + d, "json_text", labels)
    nontrivial = not any(lb == "depth_0" for lb in labels)
    return Outcome(True, labels=sorted(labels), nontrivial=nontrivial)


def run_typed(case):
    spec, value = case["type"], case["value"]
    labels = {"fam:typed"} | tg.type_labels(spec)
    if any(s_["k"] == "array" and tg.is_dynamic(s_["item"]) for s_, _ in tg.subspecs(spec)):
        # arrays of dynamically sized items are not among the field kinds the statement quantifies over (scalars,
        # strings, scalar arrays, nested classes); this family adds arrays of STATIC compound items only
        return Outcome(True, labels=["fam:typed_outside_domain"], nontrivial=False)
    node = mat.materialise(spec, via_hybrid=True)
    H = node.cls._DressingClass
    kw = {fn: mat.build_arg(kid, value[fn], mat.Forms([0]), mat.Env(None, None)) for (fn, _), kid in zip(spec["fields"], node.kids)}
    obj = sut(lambda: H(**kw))
    if is_raised(obj):
        return fail("construct_raised", f"{obj}", obj.key, labels)
    got = sut(mat.walk, obj._xobject, node)
    if is_raised(got) or tg.first_diff(spec, value, got):
        return fail("construct_value", f"{got if is_raised(got) else tg.first_diff(spec, value, got)}", "construct", labels)
    d = sut(obj.to_dict)
    if is_raised(d):
        return fail("to_dict_raised", f"{d}", d.key, labels)
    back = sut(H.from_dict, d)
    if is_raised(back):
        return fail("from_dict_raised", f"{back}", back.key, labels)
    g2 = sut(mat.walk, back._xobject, node)
    if is_raised(g2):
        return fail("rebuilt_read_raised", f"{g2}", g2.key, labels)
    df = tg.first_diff(spec, _nz(spec, value), _nz(spec, g2))
    if df:
        return fail("rebuilt_differs", df, "typed", labels)
    if any(s_["k"] == "array" and s_["item"]["k"] != "scalar" for s_, _ in tg.subspecs(spec)):
        labels.add("array_of_compound_items_in_hybrid")
    return Outcome(True, labels=sorted(labels), nontrivial=not any(lb == "depth_0" for lb in labels))


def run_case(case):
    if case["fam"] == "hybrid":
        return run_hybrid(case)
    if case["fam"] == "typed":
        return run_typed(case)
    return run_json(case)
