"""C20 — pickled objects come back usable, equal, and sharing what they shared."""

import copy
import json
import os
import pickle
import subprocess
import sys
import types

from hypothesis import strategies as st

from vlib.core import Outcome, fail, sut, is_raised, HERE
from vlib import typegen as tg
from vlib import mat, hybgen, assign, cbuild
import itertools

_kcount = itertools.count()
from checks import c01

ID = "C20"
LEVEL = "exploration"
SHRINK_BUDGET = 200
RULE = (
    "case = group of 1-4 objects of generated importable types (Struct roots of the full grammar incl. strings, "
    "dynamic arrays, several dynamic fields, Ref/UnionRef fields; named Array roots; generated HybridClass objects "
    "with nested classes) x values, placed in 1-2 buffers (BufferNumpy/BufferByteArray, capacity 0..1024, "
    "allocate/free pre-history so that the free list is not trivial) and pickled together (in one case of sixteen after the contexts compiled and called a kernel) as one tuple with protocol "
    "2..5; unpickled in-process and, for a sample, in a fresh interpreter that imports a generated module file. "
    "Oracle: every unpickled object reads equal to the model at every field (handles, and for hybrid objects also the "
    "dressed attributes); a fitting leaf write to the copy shows in the copy and not in the original and vice versa; "
    "objects that shared a buffer share one buffer object afterwards, distinct buffers stay distinct and none is an "
    "original's; capacity and get_free() survive; the unpickled buffer allocates exactly like the original (same "
    "offsets for the same requests), a new object constructed in it overlaps no unpickled object and everything "
    "still reads equal. Non-trivial = some type has >= 2 dynamic fields, or two objects of the group share a "
    "buffer; distinct = distinct case JSON."
)
ASSUMPTIONS = [
    "classes are importable: they live in a synthetic module registered in sys.modules (in-process) or in a generated module file (fresh interpreter)",
    "objects are pickled while the buffer is not being modified; CPU contexts only",
    "fitting writes only (same-length strings, in-range scalars)",
]

_modcount = [0]


def budget(tier):
    return {"examples": 300 if tier == "quick" else 3000}


def essential_labels(tier):
    return ["root:struct", "root:array", "root:hybrid", "struct_2plus_dynamic_fields", "shared_buffer", "two_buffers", "has_ref",
            "fresh_interpreter", "buf:bytearray", "prehistory_frees", "group_with_nested_part", "group_with_referenced_child"]


@st.composite
def cases(draw, tier):
    nobj = draw(st.sampled_from([1, 1, 2, 2, 3, 4]))
    nbuf = draw(st.sampled_from([1, 1, 2]))
    bufs = []
    for _ in range(nbuf):
        bufs.append({
            "kind": draw(st.sampled_from(["numpy", "numpy", "bytearray"])),
            "cap": draw(st.sampled_from([0, 8, 64, 64, 256, 1024])),
            "align": draw(st.sampled_from([1, 1, 8, 16])),
            "grow_step": draw(st.one_of(st.none(), st.integers(1, 128))),
            "pre": draw(st.lists(st.one_of(st.tuples(st.just("a"), st.integers(1, 40), st.booleans()), st.tuples(st.just("f"), st.integers(0, 7))).map(list), max_size=6)),
        })
    objs = []
    for i in range(nobj):
        kind = draw(st.sampled_from(["struct", "struct", "array", "hybrid"]))
        o = {"kind": kind, "buf": draw(st.integers(0, nbuf - 1))}
        if kind == "hybrid":
            h = draw(hybgen.hspecs(hybgen.HCfg(tier, allow_defaults=False)))
            _prefix(h, f"P{i}")
            o["h"] = h
            o["value"] = hybgen.hvalues(draw, h, absent_ok=False)
        else:
            cfg = tg.Cfg(tier, max_leaves=6 if tier == "quick" else 10, roots=(kind,))
            spec = draw(tg.type_specs(cfg))
            _prefix_spec(spec, f"P{i}")
            if kind == "array" and not spec.get("name"):
                spec["name"] = f"P{i}Root"
            o["type"] = spec
            o["value"] = tg._draw_value(draw, spec, cfg)
        o["w"] = draw(assign.op_specs)
        if draw(st.integers(0, 5)) == 0:
            # placed by the caller at an explicit offset inside free space (documented: "if offset is provided by the
            # user we assume that we can write there"); such an object is not protected from later allocations
            o["at"] = "free"
        objs.append(o)
    return {"bufs": bufs, "objs": objs, "proto": draw(st.sampled_from([0, 1, 2, 3, 4, 5, 5])), "fresh": draw(st.integers(0, 19)) == 0,
            "kernel": draw(st.integers(0, 15)) == 0}


def _prefix(h, p):
    for hh in hybgen.subclasses(h):
        if not hh["name"].startswith(p):
            hh["name"] = p + hh["name"]
        for f in hh["fields"]:
            if f["t"]["k"] == "array" and f["t"].get("name"):
                f["t"]["name"] = p + f["t"]["name"]


def _prefix_spec(spec, p):
    for s, _ in tg.subspecs(spec):
        if s.get("name") and not s["name"].startswith(p):
            s["name"] = p + s["name"]


def strategy(tier):
    return cases(tier)


# --------------------------------------------------------------------------


def make_buffers(case):
    from xobjects.context_cpu import BufferNumpy, BufferByteArray, ContextCpu

    ctx = ContextCpu()
    out = []
    for b in case["bufs"]:
        cls = BufferNumpy if b["kind"] == "numpy" else BufferByteArray
        buf = cls(capacity=b["cap"], context=ctx, default_alignment=b["align"], grow_step=b["grow_step"])
        live = []
        for op in b["pre"]:
            if op[0] == "a":
                live.append((buf.allocate(op[1], op[2]), op[1]))
            elif live:
                off, size = live.pop(op[1] % len(live))
                buf.free(off, size)
        out.append(buf)
    return out


def build_types(case, modname):
    """-> list of (kind, reader, node/hn, root class) ; classes registered in sys.modules[modname]"""
    mod = types.ModuleType(modname)
    sys.modules[modname] = mod
    built = []
    for o in case["objs"]:
        if o["kind"] == "hybrid":
            reg = {}
            hn = hybgen.materialise(o["h"], module=modname, registry=reg)
            for name, x in reg.items():
                setattr(mod, x.cls.__name__, x.cls)
                setattr(mod, x.cls._XoStruct.__name__, x.cls._XoStruct)
            built.append(hn)
        else:
            reg = {}
            node = mat.materialise(o["type"], reg, module=modname)
            for name, c in reg.items():
                setattr(mod, name, c)
            built.append(node)
    return built


def free_placed(case):
    """indices of the objects honoured as 'placed at an explicit offset in free space': the first such object per
    buffer, reference-free (its construction must not allocate), constructed after everything else"""
    seen, out = set(), set()
    for i, o in enumerate(case["objs"]):
        if o.get("at") != "free" or o["buf"] in seen:
            continue
        sp = hybgen.to_typespec(o["h"]) if o["kind"] == "hybrid" else o["type"]
        if tg.has_refs(sp):
            continue
        seen.add(o["buf"])
        out.add(i)
    return out


def construct_all(case, built, bufs):
    objs = [None] * len(built)
    fp = free_placed(case)
    order = [i for i in range(len(built)) if i not in fp] + sorted(fp)
    for i in order:
        o, b = case["objs"][i], built[i]
        buf = bufs[o["buf"]]
        extra = {}
        if i in fp:
            if o["kind"] == "hybrid":
                probe = b.cls(**hybgen.init_kwargs(b, o["value"]))._xobject
            else:
                probe = mat.construct(b, o["value"], mat.Forms([0]), mat.Env(None, None))
            size = int(probe._size)
            off = buf.allocate(size + 16)
            buf.free(off, size + 16)
            extra["_offset"] = off + 8
        if o["kind"] == "hybrid":
            kw = hybgen.init_kwargs(b, o["value"])
            objs[i] = b.cls(**kw, _buffer=buf, **extra)
        else:
            objs[i] = mat.construct(b, o["value"], mat.Forms([0]), mat.Env(buf, buf.context), _buffer=buf, **extra)
    return objs


def read(o, b, obj):
    if o["kind"] == "hybrid":
        return mat.walk(obj._xobject, b.node)
    return mat.walk(obj, b)


def spec_of(o, b):
    return b.node.spec if o["kind"] == "hybrid" else b.spec


def expected_of(o):
    return hybgen.expected(o["h"], o["value"]) if o["kind"] == "hybrid" else o["value"]


def xobj(o, obj):
    return obj._xobject if o["kind"] == "hybrid" else obj


def extent(o, obj):
    x = xobj(o, obj)
    return int(x._offset), int(x._offset) + int(x._size)


def run_case(case):
    _modcount[0] += 1
    modname = f"vgen_c20_{os.getpid()}_{_modcount[0]}"
    try:
        return _run(case, modname)
    finally:
        sys.modules.pop(modname, None)


def _run(case, modname):
    labels = set()
    built = build_types(case, modname)
    nontrivial = False
    for o, b in zip(case["objs"], built):
        labels.add("root:" + o["kind"])
        tl = tg.type_labels(spec_of(o, b))
        labels |= {x for x in tl if x in ("struct_2plus_dynamic_fields", "has_ref", "has_unionref", "array_of_dynamic_items", "array_dynamic_shape", "non_C_order")}
        if "struct_2plus_dynamic_fields" in tl:
            nontrivial = True
    used = [o["buf"] for o in case["objs"]]
    if len(set(used)) < len(used):
        labels.add("shared_buffer")
        nontrivial = True
    if len(set(used)) > 1:
        labels.add("two_buffers")
    for b in case["bufs"]:
        labels.add("buf:" + b["kind"])
        if any(op[0] == "f" for op in b["pre"]) and any(op[0] == "a" for op in b["pre"]):
            labels.add("prehistory_frees")
    labels.add(f"proto_{case['proto']}")
    fp = free_placed(case)
    if fp:
        labels.add("object_at_explicit_offset_in_free_space")

    bufs = sut(make_buffers, case)
    if is_raised(bufs):
        return fail("buffer_setup_raised", f"{bufs}", bufs.key, labels)
    objs = sut(construct_all, case, built, bufs)
    if is_raised(objs):
        return fail("construct_raised", f"{objs}", objs.key, labels)
    exps = [expected_of(o) for o in case["objs"]]
    for i, (o, b, x) in enumerate(zip(case["objs"], built, objs)):
        g = sut(read, o, b, x)
        if is_raised(g) or tg.first_diff(spec_of(o, b), exps[i], g):
            return fail("construct_value", f"object {i}: {g if is_raised(g) else tg.first_diff(spec_of(o, b), exps[i], g)}", "construct", labels)
    free_before = [int(b.get_free()) for b in bufs]
    cap_before = [int(b.capacity) for b in bufs]
    # the numpy views of every scalar array are read once before pickling (whatever a handle caches must not be
    # pickled as a detached copy)
    for i, (o, b, x) in enumerate(zip(case["objs"], built, objs)):
        r = c01.check_nplike(xobj(o, x), b.node if o["kind"] == "hybrid" else b, exps[i])
        if r is not None:
            return fail("construct_value", f"object {i}: numpy view before pickling: {r.detail}", "construct", labels)
    # extras pickled in the same group: nested dressed parts of hybrid objects and a same-buffer object bound to a
    # Ref field (these are 'not movable' objects; they shared storage with their owner and must still do so)
    extras = []  # (kind, owner index, field xo name, object)
    for i, (o, b, x) in enumerate(zip(case["objs"], built, objs)):
        if o["kind"] != "hybrid":
            continue
        for f in o["h"]["fields"]:
            py = hybgen.pyname(o["h"], f["n"])
            if f["t"]["k"] == "hybrid" and len(extras) < 3:
                extras.append(("part", i, f["n"], getattr(x, py)))
            elif f["t"]["k"] == "ref" and len(extras) < 3 and not fp:  # (an allocation would overwrite an object placed in free space)
                kn = b.kids[f["n"]]
                child = sut(lambda: kn.cls(**hybgen.init_kwargs(kn, hybgen.expected(kn.h, exps[i][f["n"]]) if exps[i][f["n"]] is not None else _any_value(kn.h)), _buffer=x._buffer))
                if is_raised(child):
                    continue
                r = sut(setattr, x, py, child)
                if is_raised(r):
                    return fail("ref_assign_raised", f"object {i}.{py}: {r}", r.key, labels)
                exps[i][f["n"]] = mat.walk(child._xobject, kn.node)
                extras.append(("child", i, f["n"], child))
    if extras:
        labels.add("group_with_nested_part" if any(e[0] == "part" for e in extras) else "group_with_referenced_child")
        if any(e[0] == "child" for e in extras):
            labels.add("group_with_referenced_child")
        free_before = [int(b.get_free()) for b in bufs]
        cap_before = [int(b.capacity) for b in bufs]
    if case.get("kernel"):
        # the contexts have compiled and called a kernel before their objects are pickled
        import xobjects as xo

        cbuild.quiet()
        for c_ in {id(b.context): b.context for b in bufs}.values():
            kn_ = f"vf_one_{os.getpid()}_{next(_kcount)}"
            r = sut(c_.add_kernels, sources=[f"int {kn_}(int a){{ return a + 1; }}"],
                    kernels={kn_: xo.Kernel(args=[xo.Arg(xo.Int32, name="a")], ret=xo.Arg(xo.Int32), c_name=kn_)},
                    extra_compile_args=cbuild.FAST_FLAGS, extra_link_args=())
            if is_raised(r) or getattr(c_.kernels, kn_)(a=1) != 2:
                return fail("kernel_build_failed", f"{r}", "setup", labels)
        labels.add("context_compiled_a_kernel_before")
    blob = sut(pickle.dumps, tuple(objs) + tuple(e[3] for e in extras), case["proto"])
    if is_raised(blob):
        return fail("pickle_raised", f"{blob}", blob.key + "|" + _kinds(case), labels)
    allobjs2 = sut(pickle.loads, blob)
    if is_raised(allobjs2):
        return fail("unpickle_raised", f"{allobjs2}", allobjs2.key + "|" + _kinds(case), labels)
    if len(allobjs2) != len(objs) + len(extras):
        return fail("unpickle_count", f"{len(allobjs2)} objects for {len(objs) + len(extras)}", "", labels)
    objs2 = allobjs2[: len(objs)]
    for (kind_, oi, fname, orig_), got_ in zip(extras, allobjs2[len(objs):]):
        owner2 = objs2[oi]
        fx = sut(lambda: getattr(owner2._xobject, fname))
        if is_raised(fx) or fx is None or not hasattr(got_, "_xobject"):
            return fail("extra_unusable", f"{kind_} of object {oi}.{fname}: {fx!r} / {type(got_).__name__}", kind_, labels)
        if got_._xobject._buffer is not owner2._xobject._buffer or int(got_._xobject._offset) != int(fx._offset):
            return fail("sharing_lost", f"the {kind_} {fname} of object {oi} was pickled with its owner; afterwards it lives at {got_._xobject._offset} (same buffer: {got_._xobject._buffer is owner2._xobject._buffer}), the owner's field is at {fx._offset}", kind_, labels)
    # ---- equal at every field
    for i, (o, b, x) in enumerate(zip(case["objs"], built, objs2)):
        if type(x) is not type(objs[i]):
            return fail("unpickled_class", f"object {i}: {type(x)} is not {type(objs[i])}", o["kind"], labels)
        g = sut(read, o, b, x)
        if is_raised(g):
            return fail("unpickled_read_raised", f"object {i} ({o['kind']}): {g}", g.key + "|" + _dynfeat(spec_of(o, b)), labels)
        d = tg.first_diff(spec_of(o, b), exps[i], g)
        if d:
            return fail("unpickled_differs", f"object {i}: {d}", o["kind"], labels)
        sz, sz0 = sut(lambda: xobj(o, x)._size), xobj(o, objs[i])._size
        if is_raised(sz) or sz is None or int(sz) != int(sz0):
            return fail("unpickled_size", f"object {i} ({o['kind']}): _size is {sz!r}, the original's is {sz0}", o["kind"], labels)
        if o["kind"] == "hybrid":
            g = sut(hybgen.hwalk, x, b)
            if is_raised(g):
                return fail("unpickled_read_raised", f"object {i} dressed attributes: {g}", g.key, labels)
            d = tg.first_diff(spec_of(o, b), exps[i], g)
            if d:
                return fail("unpickled_differs", f"object {i} through dressed attributes: {d}", "hybrid_attr", labels)
    # ---- buffer identity structure
    for i in range(len(objs)):
        bi = xobj(case["objs"][i], objs2[i])._buffer
        for j in range(len(bufs)):
            if bi is bufs[j]:
                return fail("shares_original_buffer", f"unpickled object {i} lives in the original's buffer", "", labels)
        for j in range(i + 1, len(objs)):
            bj = xobj(case["objs"][j], objs2[j])._buffer
            same_before = used[i] == used[j]
            if same_before and bi is not bj:
                return fail("sharing_lost", f"objects {i} and {j} shared a buffer; after unpickling they live in different buffer objects", "", labels)
            if not same_before and bi is bj:
                return fail("buffers_merged", f"objects {i} and {j} lived in different buffers; after unpickling they share one", "", labels)
    newbuf = {}
    for i, o in enumerate(case["objs"]):
        newbuf.setdefault(o["buf"], xobj(o, objs2[i])._buffer)
    for k, nb in newbuf.items():
        if int(nb.capacity) != cap_before[k] or int(nb.get_free()) != free_before[k]:
            return fail("allocator_state_changed", f"buffer {k}: capacity/free {cap_before[k]}/{free_before[k]} became {nb.capacity}/{nb.get_free()}", "", labels)
    # ---- independence: write to the copy, then to the original
    for i, (o, b) in enumerate(zip(case["objs"], built)):
        sp = spec_of(o, b)
        node = b.node if o["kind"] == "hybrid" else b
        leaves = mat.leaf_paths(sp, exps[i])
        leaves = [(p, ls) for p, ls in leaves if p]
        if not leaves:
            continue
        path, ls = leaves[o["w"]["li"] % len(leaves)]
        cur = mat.model_get(sp, exps[i], path)[1]
        new1 = assign.fit_value(ls, o["w"], cur)
        new2 = _other_value(ls, new1, cur)
        m_copy = copy.deepcopy(exps[i])
        mat.model_set(sp, m_copy, path, new1)
        m_orig = copy.deepcopy(exps[i])
        mat.model_set(sp, m_orig, path, new2)
        for side, target, other, new, m_target, m_other in (
            ("copy", objs2[i], objs[i], new1, m_copy, exps[i]),
            ("original", objs[i], objs2[i], new2, m_orig, m_copy),
        ):
            r = sut(mat.obj_set, xobj(o, target), node, path, new)
            if is_raised(r):
                return fail("write_raised", f"object {i} ({side}) path {path}: {r}", r.key + "|" + side, labels)
            gt = sut(read, o, b, target)
            go = sut(read, o, b, other)
            if is_raised(gt) or tg.first_diff(sp, m_target, gt):
                return fail("write_not_visible", f"object {i} ({side}) after write at {path}: {gt if is_raised(gt) else tg.first_diff(sp, m_target, gt)}", side, labels)
            if is_raised(go) or tg.first_diff(sp, m_other, go):
                return fail("not_independent", f"write to the {side} of object {i} at {path} changed the other side: {go if is_raised(go) else tg.first_diff(sp, m_other, go)}", side, labels)
        exps[i] = m_copy  # what objs2[i] must read from here on
        labels.add("write_checked")
        r = c01.check_nplike(xobj(o, objs2[i]), node, m_copy)
        if r is not None:
            return fail("numpy_view_detached", f"object {i} after a write at {path}: to_nplike of the unpickled object: {r.detail}", "", labels)
    # ---- the unpickled buffers are working allocators, and behave like the originals
    for k, nb in newbuf.items():
        for size, al in ((1, False), (24, True), (max(8, cap_before[k] // 2), True), (cap_before[k] + 16, True)):
            a = sut(nb.allocate, size, al)
            b0 = sut(bufs[k].allocate, size, al)
            if is_raised(a):
                return fail("allocate_raised_after_unpickle", f"buffer {k}: allocate({size}): {a}", a.key, labels)
            if not is_raised(b0) and int(a) != int(b0):
                return fail("allocator_diverges", f"buffer {k}: allocate({size}, {al}) gave {a} on the unpickled buffer, {b0} on the original", "", labels)
            for i, o in enumerate(case["objs"]):
                if o["buf"] == k and i not in fp:
                    lo, hi = extent(o, objs2[i])
                    if int(a) < hi and lo < int(a) + size:
                        return fail("allocation_overlaps_object", f"buffer {k}: allocate({size}) = {a} overlaps unpickled object {i} at [{lo},{hi})", "", labels)
    o0, b0_ = case["objs"][0], built[0]
    nb = xobj(o0, objs2[0])._buffer
    if o0["kind"] == "hybrid":
        extra = sut(lambda: b0_.cls(**hybgen.init_kwargs(b0_, o0["value"]), _buffer=nb))
    else:
        extra = sut(mat.construct, b0_, o0["value"], mat.Forms([0]), mat.Env(nb, nb.context), _buffer=nb)
    if is_raised(extra):
        return fail("construct_in_unpickled_buffer_raised", f"{extra}", extra.key, labels)
    lo, hi = extent(o0, extra)
    for i, o in enumerate(case["objs"]):
        if xobj(o, objs2[i])._buffer is nb and i not in fp:
            l2, h2 = extent(o, objs2[i])
            if lo < h2 and l2 < hi:
                return fail("new_object_overlaps", f"object constructed in the unpickled buffer at [{lo},{hi}) overlaps unpickled object {i} at [{l2},{h2})", "", labels)
    for i, (o, b, x) in enumerate(zip(case["objs"], built, objs2)):
        if i in fp:
            continue
        g = sut(read, o, b, x)
        if is_raised(g) or tg.first_diff(spec_of(o, b), exps[i], g):
            return fail("unpickled_changed_by_allocation", f"object {i}: {g if is_raised(g) else tg.first_diff(spec_of(o, b), exps[i], g)}", "", labels)
    # ---- pickling must not alter what was pickled: a second dump of the originals works, gives equal objects, and the
    #      originals' context still hands out buffers
    blob2 = sut(pickle.dumps, tuple(objs), case["proto"])
    if is_raised(blob2):
        return fail("second_pickle_raised", f"{blob2}", blob2.key, labels)
    again = sut(pickle.loads, blob2)
    if is_raised(again):
        return fail("unpickle_raised", f"second round: {again}", again.key, labels)
    octx = bufs[0].context
    nb2 = sut(octx.new_buffer, 64)
    if is_raised(nb2):
        return fail("original_context_broken_by_pickling", f"new_buffer after pickling: {nb2}", nb2.key, labels)
    labels.add("second_pickle")
    # ---- fresh interpreter
    if case.get("fresh"):
        labels.add("fresh_interpreter")
        r = fresh_interpreter(case, labels)
        if r is not None:
            return r
    return Outcome(True, labels=sorted(labels), nontrivial=nontrivial)


def _any_value(h):
    """a plain value for a hybrid class (strings empty, dynamic arrays of extent 1)"""
    out = {}
    for f in h["fields"]:
        t = f["t"]
        if t["k"] == "scalar":
            out[f["n"]] = 1.0 if t["t"].startswith("Float") else 1
        elif t["k"] == "string":
            out[f["n"]] = "c"
        elif t["k"] == "array":
            shape = [1 if d is None else d for d in t["shape"]]
            n = 1
            for d in shape:
                n *= d
            out[f["n"]] = {"shape": shape, "flat": [(1.0 if t["item"]["t"].startswith("Float") else 1)] * n}
        elif t["k"] == "hybrid":
            out[f["n"]] = _any_value(t["h"])
        else:
            out[f["n"]] = None
    return out


def _other_value(ls, new, cur):
    """a value different from `new` for the second write (still fitting)"""
    if ls["k"] == "string":
        return "".join("z" if c != "z" else "y" for c in new) if new else new
    if ls["t"] in tg.INT_RANGE:
        lo, hi = tg.INT_RANGE[ls["t"]]
        return new - 1 if new > lo else new + 1
    return 2.5 if new != 2.5 else 3.5


def _kinds(case):
    return ",".join(sorted({o["kind"] for o in case["objs"]}))


def _dynfeat(spec):
    tl = tg.type_labels(spec)
    return "struct_2plus_dynamic_fields" if "struct_2plus_dynamic_fields" in tl else ""


# --------------------------------------------------------------------------
# fresh interpreter: generated module file + pickle file, read back in a subprocess
# --------------------------------------------------------------------------

_MODULE_SRC = '''
import json, sys
sys.path[:0] = [{repo!r}, {here!r}]
from vlib import mat, hybgen
CASE = json.loads({case!r})
_built = []
for _o in CASE["objs"]:
    if _o["kind"] == "hybrid":
        _reg = {{}}
        _hn = hybgen.materialise(_o["h"], module=__name__, registry=_reg)
        for _x in _reg.values():
            globals()[_x.cls.__name__] = _x.cls
            globals()[_x.cls._XoStruct.__name__] = _x.cls._XoStruct
        _built.append(_hn)
    else:
        _reg = {{}}
        _built.append(mat.materialise(_o["type"], _reg, module=__name__))
        globals().update(_reg)
'''

_READER_SRC = '''
import sys, json, pickle
sys.path.insert(0, {cwd!r})
import {mod} as M
from vlib import mat, hybgen
objs = pickle.load(open({pk!r}, "rb"))
out = []
for o, b, x in zip(M.CASE["objs"], M._built, objs):
    out.append(mat.walk(x._xobject, b.node) if o["kind"] == "hybrid" else mat.walk(x, b))
bufs = []
for o, x in zip(M.CASE["objs"], objs):
    xb = (x._xobject if o["kind"] == "hybrid" else x)._buffer
    bufs.append([id(xb), int(xb.capacity), int(xb.get_free())])
seen = set()
for o, x, rec in zip(M.CASE["objs"], objs, bufs):
    xb = (x._xobject if o["kind"] == "hybrid" else x)._buffer
    if id(xb) not in seen:
        seen.add(id(xb))
        rec.append(int(xb.allocate(8)))
print("RESULT" + json.dumps({{"values": out, "bufs": bufs}}))
'''


def fresh_interpreter(case, labels):
    import importlib

    cwd = os.getcwd()
    _modcount[0] += 1
    mod = f"vgenfile_{os.getpid()}_{_modcount[0]}"
    repo = os.environ.get("VERIF_REPO", "/repo")
    with open(os.path.join(cwd, mod + ".py"), "w") as f:
        f.write(_MODULE_SRC.format(repo=repo, here=HERE, case=json.dumps(case)))
    sys.path.insert(0, cwd)
    try:
        M = importlib.import_module(mod)
        bufs = make_buffers(case)
        objs = construct_all(case, M._built, bufs)
        pk = os.path.join(cwd, mod + ".pickle")
        with open(pk, "wb") as f:
            pickle.dump(tuple(objs), f, case["proto"])
        free = [int(b.get_free()) for b in bufs]
        caps = [int(b.capacity) for b in bufs]
        r = subprocess.run([sys.executable, "-c", _READER_SRC.format(cwd=cwd, mod=mod, pk=pk)], stdout=subprocess.PIPE, stderr=subprocess.PIPE, text=True, timeout=300,
                           env=dict(os.environ, PYTHONPATH=""))
        if r.returncode != 0 or "RESULT" not in r.stdout:
            tail = (r.stderr or r.stdout)[-1200:]
            last = [ln for ln in tail.splitlines() if ln.strip()][-1:] or [""]
            return fail("fresh_interpreter_failed", tail, last[0].split(":")[0][:60], labels)
        res = json.loads(r.stdout.split("RESULT", 1)[1])
        for i, (o, b) in enumerate(zip(case["objs"], M._built)):
            sp = spec_of(o, b)
            d = tg.first_diff(sp, _jsonable(expected_of(o)), res["values"][i])
            if d:
                return fail("fresh_interpreter_differs", f"object {i}: {d}", o["kind"], labels)
        used = [o["buf"] for o in case["objs"]]
        for i in range(len(used)):
            if len(res["bufs"][i]) > 3:
                a0 = int(bufs[used[i]].allocate(8))
                if res["bufs"][i][3] != a0:
                    return fail("allocator_diverges", f"fresh interpreter: allocate(8) on the buffer of object {i} gave {res['bufs'][i][3]}, the original gives {a0}", "fresh", labels)
        for i in range(len(used)):
            if res["bufs"][i][1] != caps[used[i]] or res["bufs"][i][2] != free[used[i]]:
                return fail("allocator_state_changed", f"fresh interpreter: buffer of object {i}: capacity/free {res['bufs'][i][1:3]} vs {caps[used[i]]}/{free[used[i]]}", "fresh", labels)
            for j in range(i + 1, len(used)):
                if (used[i] == used[j]) != (res["bufs"][i][0] == res["bufs"][j][0]):
                    return fail("sharing_lost" if used[i] == used[j] else "buffers_merged", f"fresh interpreter: objects {i},{j}", "fresh", labels)
        return None
    finally:
        sys.path.remove(cwd)
        sys.modules.pop(mod, None)
        for ext in (".py", ".pickle"):
            try:
                os.remove(os.path.join(cwd, mod + ext))
            except OSError:
                pass


def _jsonable(v):
    """model value as it comes back through JSON text (NaN/inf survive Python's json)"""
    return json.loads(json.dumps(v))
