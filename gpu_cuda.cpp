extern "C"{
typedef signed long long   int64_t;  //only_for_context cuda
typedef signed int         int32_t;  //only_for_context cuda
typedef signed short       int16_t;  //only_for_context cuda
typedef signed char        int8_t;   //only_for_context cuda
typedef unsigned long long uint64_t; //only_for_context cuda
typedef unsigned int       uint32_t; //only_for_context cuda
typedef unsigned short     uint16_t; //only_for_context cuda
typedef unsigned char      uint8_t;  //only_for_context cuda


#ifndef XOBJ_TYPEDEF_A3
#define XOBJ_TYPEDEF_A3
typedef   struct A3_s * A3;
 __device__  A3 A3_getp(A3 obj){
  int64_t offset=0;
  return (A3)(( char*) obj+offset);
}
 __device__  int64_t A3_len(A3 obj){
  int64_t offset=0;
   int64_t* arr = ( int64_t*)(( char*) obj+offset);
  return arr[1]*4;
}
 __device__   char* A3_getp2(A3 obj, int64_t i0, int64_t i1){
  int64_t offset=0;
  int64_t A3_s0=*( int64_t*)(( char*) obj+offset+16);
  int64_t A3_s1=*( int64_t*)(( char*) obj+offset+24);
  offset+=*( int64_t*)(( char*) obj+offset+32+i0*A3_s0+i1*A3_s1);
  return ( char*)(( char*) obj+offset);
}
#endif
#ifndef XOBJ_TYPEDEF_A4
#define XOBJ_TYPEDEF_A4
typedef   struct A4_s * A4;
 __device__  A4 A4_getp(A4 obj){
  int64_t offset=0;
  return (A4)(( char*) obj+offset);
}
 __device__  int64_t A4_len(A4 obj){
  return 3;
}
 __device__   char* A4_getp1(A4 obj, int64_t i0){
  int64_t offset=0;
  offset+=*( int64_t*)(( char*) obj+offset+8+i0*8);
  return ( char*)(( char*) obj+offset);
}
#endif
#ifndef XOBJ_TYPEDEF_S5
#define XOBJ_TYPEDEF_S5
typedef   struct S5_s * S5;
 __device__  S5 S5_getp(S5 obj){
  int64_t offset=0;
  return (S5)(( char*) obj+offset);
}
 __device__  int32_t S5_get_f0(const S5 obj){
  int64_t offset=0;
  return *( int32_t*)(( char*) obj+offset);
}
 __device__  void S5_set_f0(S5 obj, int32_t value){
  int64_t offset=0;
  *( int32_t*)(( char*) obj+offset)=value;
}
 __device__   int32_t* S5_getp_f0(S5 obj){
  int64_t offset=0;
  return ( int32_t*)(( char*) obj+offset);
}
 __device__  int64_t S5_get_f1(const S5 obj){
  int64_t offset=0;
  offset+=8;
  return *( int64_t*)(( char*) obj+offset);
}
 __device__  void S5_set_f1(S5 obj, int64_t value){
  int64_t offset=0;
  offset+=8;
  *( int64_t*)(( char*) obj+offset)=value;
}
 __device__   int64_t* S5_getp_f1(S5 obj){
  int64_t offset=0;
  offset+=8;
  return ( int64_t*)(( char*) obj+offset);
}
#endif
#ifndef XOBJ_TYPEDEF_U2
#define XOBJ_TYPEDEF_U2
typedef   struct U2_s * U2;
enum U2_e{U2_A3_t,U2_A4_t,U2_S5_t};
 __device__  U2 U2_getp(U2 obj){
  int64_t offset=0;
  return (U2)(( char*) obj+offset);
}
 __device__  int64_t U2_typeid(const U2 obj){
  int64_t offset=0;
  offset+=8;
  return *( int64_t*)(( char*) obj+offset);
}
 __device__   void* U2_member(const U2 obj){
  int64_t offset=0;
  offset+=*( int64_t*)(( char*) obj+offset);
 return ( void*)(( char*) obj+offset);
}
#endif
#ifndef XOBJ_TYPEDEF_S1
#define XOBJ_TYPEDEF_S1
typedef   struct S1_s * S1;
 __device__  S1 S1_getp(S1 obj){
  int64_t offset=0;
  return (S1)(( char*) obj+offset);
}
 __device__  U2 S1_getp_f0(S1 obj){
  int64_t offset=0;
  offset+=8;
  return (U2)(( char*) obj+offset);
}
 __device__  int64_t S1_typeid_f0(const S1 obj){
  int64_t offset=0;
  offset+=8;
  offset+=8;
  return *( int64_t*)(( char*) obj+offset);
}
 __device__   void* S1_member_f0(const S1 obj){
  int64_t offset=0;
  offset+=8;
  offset+=*( int64_t*)(( char*) obj+offset);
 return ( void*)(( char*) obj+offset);
}
 __device__   char* S1_getp_f1(S1 obj){
  int64_t offset=0;
  offset+=32;
  return ( char*)(( char*) obj+offset);
}
 __device__   char* S1_getp_f2(S1 obj){
  int64_t offset=0;
  offset+=*( int64_t*)(( char*) obj+offset+24);
  return ( char*)(( char*) obj+offset);
}
#endif
}