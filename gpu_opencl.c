#ifndef XOBJ_STDINT
typedef long           int64_t;
typedef int            int32_t;
typedef short          int16_t;
typedef char           int8_t;
typedef unsigned long  uint64_t;
typedef unsigned int   uint32_t;
typedef unsigned short uint16_t;
typedef unsigned char  uint8_t;
#endif
#ifndef NULL
#define NULL 0L
#endif

#ifndef XOBJ_TYPEDEF_A3
#define XOBJ_TYPEDEF_A3
typedef  __global  struct A3_s * A3;
  A3 A3_getp(A3 obj){
  int64_t offset=0;
  return (A3)(( __global char*) obj+offset);
}
  int64_t A3_len(A3 obj){
  int64_t offset=0;
   __global int64_t* arr = ( __global int64_t*)(( __global char*) obj+offset);
  return arr[1]*4;
}
   __global char* A3_getp2(A3 obj, int64_t i0, int64_t i1){
  int64_t offset=0;
  int64_t A3_s0=*( __global int64_t*)(( __global char*) obj+offset+16);
  int64_t A3_s1=*( __global int64_t*)(( __global char*) obj+offset+24);
  offset+=*( __global int64_t*)(( __global char*) obj+offset+32+i0*A3_s0+i1*A3_s1);
  return ( __global char*)(( __global char*) obj+offset);
}
#endif
#ifndef XOBJ_TYPEDEF_A4
#define XOBJ_TYPEDEF_A4
typedef  __global  struct A4_s * A4;
  A4 A4_getp(A4 obj){
  int64_t offset=0;
  return (A4)(( __global char*) obj+offset);
}
  int64_t A4_len(A4 obj){
  return 3;
}
   __global char* A4_getp1(A4 obj, int64_t i0){
  int64_t offset=0;
  offset+=*( __global int64_t*)(( __global char*) obj+offset+8+i0*8);
  return ( __global char*)(( __global char*) obj+offset);
}
#endif
#ifndef XOBJ_TYPEDEF_S5
#define XOBJ_TYPEDEF_S5
typedef  __global  struct S5_s * S5;
  S5 S5_getp(S5 obj){
  int64_t offset=0;
  return (S5)(( __global char*) obj+offset);
}
  int32_t S5_get_f0(const S5 obj){
  int64_t offset=0;
  return *( __global int32_t*)(( __global char*) obj+offset);
}
  void S5_set_f0(S5 obj, int32_t value){
  int64_t offset=0;
  *( __global int32_t*)(( __global char*) obj+offset)=value;
}
   __global int32_t* S5_getp_f0(S5 obj){
  int64_t offset=0;
  return ( __global int32_t*)(( __global char*) obj+offset);
}
  int64_t S5_get_f1(const S5 obj){
  int64_t offset=0;
  offset+=8;
  return *( __global int64_t*)(( __global char*) obj+offset);
}
  void S5_set_f1(S5 obj, int64_t value){
  int64_t offset=0;
  offset+=8;
  *( __global int64_t*)(( __global char*) obj+offset)=value;
}
   __global int64_t* S5_getp_f1(S5 obj){
  int64_t offset=0;
  offset+=8;
  return ( __global int64_t*)(( __global char*) obj+offset);
}
#endif
#ifndef XOBJ_TYPEDEF_U2
#define XOBJ_TYPEDEF_U2
typedef  __global  struct U2_s * U2;
enum U2_e{U2_A3_t,U2_A4_t,U2_S5_t};
  U2 U2_getp(U2 obj){
  int64_t offset=0;
  return (U2)(( __global char*) obj+offset);
}
  int64_t U2_typeid(const U2 obj){
  int64_t offset=0;
  offset+=8;
  return *( __global int64_t*)(( __global char*) obj+offset);
}
   __global void* U2_member(const U2 obj){
  int64_t offset=0;
  offset+=*( __global int64_t*)(( __global char*) obj+offset);
 return ( __global void*)(( __global char*) obj+offset);
}
#endif
#ifndef XOBJ_TYPEDEF_S1
#define XOBJ_TYPEDEF_S1
typedef  __global  struct S1_s * S1;
  S1 S1_getp(S1 obj){
  int64_t offset=0;
  return (S1)(( __global char*) obj+offset);
}
  U2 S1_getp_f0(S1 obj){
  int64_t offset=0;
  offset+=8;
  return (U2)(( __global char*) obj+offset);
}
  int64_t S1_typeid_f0(const S1 obj){
  int64_t offset=0;
  offset+=8;
  offset+=8;
  return *( __global int64_t*)(( __global char*) obj+offset);
}
   __global void* S1_member_f0(const S1 obj){
  int64_t offset=0;
  offset+=8;
  offset+=*( __global int64_t*)(( __global char*) obj+offset);
 return ( __global void*)(( __global char*) obj+offset);
}
   __global char* S1_getp_f1(S1 obj){
  int64_t offset=0;
  offset+=32;
  return ( __global char*)(( __global char*) obj+offset);
}
   __global char* S1_getp_f2(S1 obj){
  int64_t offset=0;
  offset+=*( __global int64_t*)(( __global char*) obj+offset+24);
  return ( __global char*)(( __global char*) obj+offset);
}
#endif