#include <stdint.h>
#ifndef XOBJ_TYPEDEF_E0
#define XOBJ_TYPEDEF_E0
typedef   struct E0_s * E0;
 static inline E0 E0_getp(E0 restrict  obj){
  int64_t offset=0;
  return (E0)(( char*) obj+offset);
}
#endif
#ifndef XOBJ_TYPEDEF_RefE0
#define XOBJ_TYPEDEF_RefE0
typedef   struct RefE0_s * RefE0;
#endif
#ifndef XOBJ_TYPEDEF_S1
#define XOBJ_TYPEDEF_S1
typedef   struct S1_s * S1;
 static inline S1 S1_getp(S1 restrict  obj){
  int64_t offset=0;
  return (S1)(( char*) obj+offset);
}
 static inline int32_t S1_get_x(const S1 restrict  obj){
  int64_t offset=0;
  return *( int32_t*)(( char*) obj+offset);
}
 static inline void S1_set_x(S1 restrict  obj, int32_t value){
  int64_t offset=0;
  *( int32_t*)(( char*) obj+offset)=value;
}
 static inline  int32_t* S1_getp_x(S1 restrict  obj){
  int64_t offset=0;
  return ( int32_t*)(( char*) obj+offset);
}
 static inline E0 S1_getp_f0(S1 restrict  obj){
  int64_t offset=0;
  offset+=8;
  return (E0)(( char*) obj+offset);
}
#endif
#ifndef XOBJ_TYPEDEF_A2
#define XOBJ_TYPEDEF_A2
typedef   struct A2_s * A2;
 static inline A2 A2_getp(A2 restrict  obj){
  int64_t offset=0;
  return (A2)(( char*) obj+offset);
}
 static inline int64_t A2_len(A2 restrict  obj){
  return 3;
}
 static inline S1 A2_getp1(A2 restrict  obj, int64_t i0){
  int64_t offset=0;
  offset+=i0*8;
  return (S1)(( char*) obj+offset);
}
 static inline int32_t A2_get_x(const A2 restrict  obj, int64_t i0){
  int64_t offset=0;
  offset+=i0*8;
  return *( int32_t*)(( char*) obj+offset);
}
 static inline void A2_set_x(A2 restrict  obj, int64_t i0, int32_t value){
  int64_t offset=0;
  offset+=i0*8;
  *( int32_t*)(( char*) obj+offset)=value;
}
 static inline  int32_t* A2_getp1_x(A2 restrict  obj, int64_t i0){
  int64_t offset=0;
  offset+=i0*8;
  return ( int32_t*)(( char*) obj+offset);
}
 static inline E0 A2_getp1_f0(A2 restrict  obj, int64_t i0){
  int64_t offset=0;
  offset+=i0*8;
  offset+=8;
  return (E0)(( char*) obj+offset);
}
#endif
#ifndef XOBJ_TYPEDEF_U3
#define XOBJ_TYPEDEF_U3
typedef   struct U3_s * U3;
enum U3_e{U3_S1_t,U3_A2_t};
 static inline U3 U3_getp(U3 restrict  obj){
  int64_t offset=0;
  return (U3)(( char*) obj+offset);
}
 static inline int64_t U3_typeid(const U3 restrict  obj){
  int64_t offset=0;
  offset+=8;
  return *( int64_t*)(( char*) obj+offset);
}
 static inline  void* U3_member(const U3 restrict  obj){
  int64_t offset=0;
  offset+=*( int64_t*)(( char*) obj+offset);
 return ( void*)(( char*) obj+offset);
}
#endif
#ifndef XOBJ_TYPEDEF_H4Data
#define XOBJ_TYPEDEF_H4Data
typedef   struct H4Data_s * H4Data;
 static inline H4Data H4Data_getp(H4Data restrict  obj){
  int64_t offset=0;
  return (H4Data)(( char*) obj+offset);
}
 static inline int8_t H4Data_get_x(const H4Data restrict  obj){
  int64_t offset=0;
  return *(( int8_t*) obj+offset);
}
 static inline void H4Data_set_x(H4Data restrict  obj, int8_t value){
  int64_t offset=0;
  *(( int8_t*) obj+offset)=value;
}
 static inline  int8_t* H4Data_getp_x(H4Data restrict  obj){
  int64_t offset=0;
  return ( int8_t*)(( char*) obj+offset);
}
 static inline U3 H4Data_getp_f0(H4Data restrict  obj){
  int64_t offset=0;
  offset+=8;
  return (U3)(( char*) obj+offset);
}
 static inline int64_t H4Data_typeid_f0(const H4Data restrict  obj){
  int64_t offset=0;
  offset+=8;
  offset+=8;
  return *( int64_t*)(( char*) obj+offset);
}
 static inline  void* H4Data_member_f0(const H4Data restrict  obj){
  int64_t offset=0;
  offset+=8;
  offset+=*( int64_t*)(( char*) obj+offset);
 return ( void*)(( char*) obj+offset);
}
 static inline E0 H4Data_getp_f1(H4Data restrict  obj){
  int64_t offset=0;
  offset+=24;
  offset+=*( int64_t*)(( char*) obj+offset);
  return (E0)(( char*) obj+offset);
}
#endif