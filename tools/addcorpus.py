#!/venv/bin/python
"""tools/addcorpus.py <ID> <name> <origin text> < case.json   (case JSON on stdin)"""
import sys, json, os
cid, name, origin = sys.argv[1:4]
case = json.load(sys.stdin)
if "case" in case and "property" in case: case = case["case"]
d = f"/verif/corpus/{cid}"; os.makedirs(d, exist_ok=True)
json.dump({"property": cid, "case": case, "meta": {"origin": origin}}, open(f"{d}/{name}.json", "w"), indent=1)
print("wrote", f"{d}/{name}.json")
