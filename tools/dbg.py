#!/venv/bin/python
"""run one replay with full traceback of the SUT exception"""
import sys, json, os, importlib, traceback
sys.path.insert(0, "/verif"); sys.path.insert(0, os.environ.get("VERIF_REPO", "/repo"))
import vlib.core as core
d = json.load(open(sys.argv[1])); case = d["case"] if "case" in d else d
mod = importlib.import_module("checks." + (d.get("property") or sys.argv[2]).lower())
orig = core.Raised.__init__
def init(self, exc):
    traceback.print_exception(exc); orig(self, exc)
core.Raised.__init__ = init
os.chdir("/tmp")
print(mod.run_case(case))
