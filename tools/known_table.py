#!/venv/bin/python
"""Regenerates known_findings.json from the table below (run by hand; checks never write it)."""
import json, os
HERE = os.path.dirname(os.path.dirname(os.path.abspath(__file__)))
FIXED = [
 ("C12", "d047b1b", "free() on a completely full buffer (empty free list) raised IndexError", "corpus/C12/free_on_full_buffer.json"),
 ("C12", "791da0f", "allocate() recursed once per grow_step: RecursionError for requests much larger than grow_step", "corpus/C12/recursion_small_grow_step.json"),
 ("C01", "6d8c071", "String(capacity) on reused (non-zero) memory read back stale bytes instead of ''", "corpus/C01/string_capacity_stale_memory.json"),
 ("C01", "2a2cee0", "Array.to_nplike/to_nparray: AssertionError for 3-axis cyclic axis orders and for empty N-D arrays", "corpus/C01/to_nplike_three_cycle.json"),
 ("C13", "44dc369", "BufferNumpy.update_from_nplike raised ValueError for F-ordered / strided sources", "corpus/C13/nplike_F_order_numpy.json"),
 ("C13", "7309ba2", "update_from_buffer counted items instead of bytes for ndarray.data sources of itemsize > 1: BufferNumpy raised ValueError, BufferByteArray silently resized its bytearray", "corpus/C13/update_from_buffer_itemsize_bytearray.json"),
 ("C01", "03d70c7", "array with non-C axis order initialised from an ndarray read back permuted", "corpus/C01/ndarray_into_non_C_order.json"),
 ("C01", "c3d0913", "arrays from nested lists: N-D arrays of dynamic items (TypeError), arrays of arrays of arrays (ValueError), lists of (typename, data) union items (ValueError)", "corpus/C01/nd_dynamic_items_from_list.json"),
 ("C09", "7e8e29f", "arrays whose items hold references were byte-copied: references of the copy dangling", "corpus/C01/array_of_refs_from_xobject.json"),
 ("C05", "bd9b13f", "item-offset table of N-D arrays of dynamic items written in index order, not memory order", "corpus/C05/item_table_memory_order.json"),
 ("C06", "bd9b13f", "a view of an N-D array of dynamic items could not be indexed (1-D offset table)", "corpus/C01/view_of_nd_dynamic_items.json"),
 ("C01", "da3c3d2", "copy of an array of strings with spare capacity refused (ValueError: not compatible size)", "corpus/C01/array_copy_spare_capacity.json"),
 ("C05", "b2e5472", "items after a String(capacity) item in an array started off the 8-byte slot grid", "corpus/C05/items_after_capacity_string_off_slot.json"),
 ("C10", "5cdb198", "whole-array assignment to an N-D array field raised ValueError (len(value) vs number of items)", "corpus/C10/assign_nd_array.json"),
 ("C11", "5cdb198", "array update with a same-length value of another shape rewrote the shape header", "corpus/C11/wrong_shape_same_length.json"),
 ("C11", "65a3966", "a string longer than its capacity / a list whose items need more space was accepted silently and overwrote the neighbour", "corpus/C11/string_too_large.json"),
 ("C11", "9469b98", "Struct._update left earlier fields modified when a later field raised", "corpus/C11/partial_struct_update.json"),
 ("C02", "b262522", "C accessors through an array of dynamic items nested in a parent dropped the array's own offset (offset= instead of offset+=)", "corpus/C02/nested_array_of_dynamic_items.json"),
 ("C14", "d9b1809", "a class without fields that another class depends on was listed (and its API emitted) twice; cffi rejected the build", "corpus/C14/fieldless_dependency_twice.json"),
 ("C19", "3312ce6", "to_dict never omitted renamed fields equal to their default (defaults keyed by xo name, looked up by Python name)", "corpus/C19/renamed_default_not_elided.json"),
 ("C19", "b53ebd3", "to_dict omitted a zero-length dynamic array field (no default): from_dict(to_dict()) raised", "corpus/C19/empty_dynamic_array_elided.json"),
 ("C19", "55ba689", "to_dict compared defaults in xobject form: String fields equal to their declared default never omitted; N-D static array fields raised ValueError (broadcast)", "corpus/C19/nd_static_array_default.json"),
 ("C19", "e2169d6", "from_dict(to_dict()) of an object with a nested hybrid object whose class renames fields silently lost those fields' values (or raised)", "corpus/C19/nested_renamed_fields_lost.json"),
 ("C20", "2ce3888", "unpickled structs with >= 2 dynamic fields raised AttributeError on first access (cached _offsets not restored); dynamic structs came back without _size", "corpus/C20/struct_two_dynamic_fields.json"),
 ("C18", "6966b83", "assigning a hybrid object of another buffer to a reference field raised MemoryError only after the reference had been rebound to a copy (attributes no longer mirrored the buffer)", "corpus/C18/ref_across_buffers_refused.json"),
 ("C18", "a2babea", "after assigning a hybrid object to a non-reference field the nested dressed parts of the stored copy were still the source's (two-level nesting)", "corpus/C18/two_level_nested_assign.json"),
 ("C18", "c09fcf1", "setting a reference field (or a nested hybrid field holding references) from plain data or None left the previously assigned dressed object as the attribute value", "corpus/C18/ref_then_data.json"),
 ("C10", "71cc20e", "Struct._update byte-copied a same-class struct that holds references: the assigned element's references pointed to unrelated bytes", "corpus/C18/nested_with_ref_assign.json"),
 ("C17", "173b5fc", "xobject arrays passed as pointer-to-scalar kernel arguments were cast to '<ArrayClassName>*' (cffi: undefined type name)", "corpus/C17/xobject_array_as_pointer.json"),
 ("C10", "20494f4", "a whole-array update that moves items of dynamic size left the updating handle's cached item offsets stale (reads returned other items' bytes)", "corpus/C10/root_update_moves_items.json"),
 ("C09", "20494f4", "a copy of an array of dynamic items shared the source's Python-side item-offset cache (a live view of the source buffer's table when the source is a view)", "corpus/C09/copy_shares_offset_cache.json"),
 ("C10", "be24ecd", "Struct._update by byte copy left the handle's cached offsets of dynamic fields stale when the assigned struct splits the same size differently", "corpus/C10/struct_other_split_by_copy.json"),
 ("C09", "5f3b487", "Array._update left the handle's cached _size stale after a shrinking whole-array update: a later copy of that object was refused", "corpus/C09/second_copy_after_shrinking_update.json"),
 ("C19", "56f1ce4", "to_dict compared an array field with its default by broadcasting: a value of another length raised ValueError (or was wrongly omitted when it broadcasts to the default)", "corpus/C19/array_default_other_length.json"),
 ("C10", "f846081", "handles kept a private copy of the offset table / size of movable parts: after a whole-object update through another handle (or growth) a pre-existing handle read other parts' bytes", "corpus/C10/stale_root_handle.json"),
 ("C09", "f846081", "same root cause seen through copies (a copy made from a stale handle was refused or wrong)", "corpus/C09/stale_root_handle.json"),
 ("C03", "f846081", "same root cause seen through byte locality (accesses through the stale handle landed on other parts)", "corpus/C03/stale_root_handle.json"),
 ("C18", "f15a74e", "a hybrid object assigned from another buffer to a non-reference field: below the stored copy the attribute values of Ref fields were still the source's dressed referents (other buffer), not the duplicates the copy references", "corpus/C18/nested_copy_keeps_source_referents.json"),
 ("C11", "5bd4a90", "a sequence assigned to a scalar slot (struct field, array item) was written in full and overran the slot (reported by a seeding sub-agent on the clean tree)", "corpus/C11/sequence_into_scalar_field.json"),
 ("C11", "6af4326", "Array._update left the items before a failing item modified", "corpus/C11/sequence_in_whole_array_update.json"),
 ("C05", "d210566", "Ref slot bound in place an array of a same-named class with another axis order; the slot read other values than assigned", "corpus/C05/twin_axis_order_class_in_same_buffer.json"),
 ("C08", "d210566", "Ref slot aliased an array object of a same-named twin class (other axis order) living in the holder's buffer", "corpus/C08/twin_axis_order_bound_in_place.json"),
 ("C17", "ce9eb0b", "an xobject scalar array living in a BufferByteArray was passed to kernels as the address of a temporary copy of its bytes", "corpus/C17/xarray_in_bytearray_buffer.json"),
 ("C06", "4d82184", "Array._update shrank the size header: other handles and views of the array kept the old _size, the reserved extent was forgotten", "corpus/C06/stale_size_after_whole_update.json"),
 ("C08", "29a1308", "UnionRef slot given a member's same-named twin class (other axis order): bound in place / copied as the twin, read back through the member class with other values", "corpus/C08/twin_axis_order_union_member.json"),
]
OPEN = []
out = {"comment": "Read-only at run time. 'fixed' entries suppress nothing: the example is in corpus/ and is re-run by the check, so a regression is reported as a violation. 'open' entries are attributed by feature + counterfactual (DESIGN.md section 7).",
       "findings": []}
for prop, commit, what, example in FIXED:
    out["findings"].append({"status": "fixed", "property": prop, "id": f"{prop}-{commit}", "commit": commit, "what": what, "example": example,
                            "line": f"fixed: property={prop} {commit} {what}"})
for o in OPEN:
    o["line"] = f"KNOWN-FINDING: property={o['property']} {o['what']}"
out["findings"] += OPEN
json.dump(out, open(os.path.join(HERE, "known_findings.json"), "w"), indent=1)
missing = [f["example"] for f in out["findings"] if not os.path.exists(os.path.join(HERE, f["example"]))]
print("written", len(out["findings"]), "entries; missing example files:", missing)
