CHECKS = {
 "C04": {
  "text": "Exploration: Hypothesis-generated allocate/free/grow histories (<=60 ops quick, <=400 thorough) over both CPU buffer kinds, capacities, alignments and grow steps, plus complete enumeration of all histories up to length 4 (quick) / 5 (thorough) over a 13-letter alphabet for 72 configurations; invariant oracle (bounds, alignment, disjointness, data patterns preserved, capacity monotone) after every step. Finite search: absence beyond the explored histories is not claimed.",
  "note": "Trusts update_from_buffer/to_bytearray to write/read region bytes (those are checked by C13). free() only called with live (offset,size) pairs.",
  "technique": "property-based testing: generated operation histories + exhaustive small-scope enumeration, invariant oracle",
 },
 "C12": {
  "text": "Exploration: the same history space as C04, each history compared step by step with an executable first-fit / coalescing free-list specification on observable results only (offsets, growth iff nothing fits, get_free, exceptions), final exact-fit probe; exhaustive for all histories up to length 4 (quick) / 5 (thorough) over 13 letters x 72 configurations.",
  "note": "The specification fixes that alignment padding is lost (as the statement allows) and takes the growth amount from the implementation. Requests of size >= 1 only.",
  "technique": "model-based property testing: generated and exhaustively enumerated histories against a reference model",
 },
}
NOT_APPLICABLE = {}
