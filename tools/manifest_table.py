CHECKS = {
 "C04": {
  "text": "Exploration: Hypothesis-generated allocate/free/grow histories (<=60 ops quick, <=400 thorough) over both CPU buffer kinds, capacities, alignments and grow steps, plus complete enumeration of all histories up to length 4 (quick) / 5 (thorough) over a 14-letter alphabet for 72 configurations; invariant oracle (bounds, alignment, disjointness, data patterns preserved, capacity monotone) after every step. Finite search: absence beyond the explored histories is not claimed.",
  "note": "Trusts update_from_buffer/to_bytearray to write/read region bytes (those are checked by C13). free() only called with live (offset,size) pairs.",
  "technique": "property-based testing: generated operation histories + exhaustive small-scope enumeration, invariant oracle",
 },
 "C12": {
  "text": "Exploration: the same history space as C04, each history compared step by step with an executable first-fit / coalescing free-list specification on observable results only (offsets, growth iff nothing fits, get_free, exceptions), final exact-fit probe; exhaustive for all histories up to length 4 (quick) / 5 (thorough) over 14 letters x 72 configurations.",
  "note": "The specification fixes that alignment padding is lost (as the statement allows) and takes the growth amount from the implementation. Empty requests (size 0) are judged by a weak oracle: no failure, within capacity, free total unchanged apart from padding.",
  "technique": "model-based property testing: generated and exhaustively enumerated histories against a reference model",
 },
}
NOT_APPLICABLE = {}

_GRAMMAR = "generated type expressions of the property's grammar (10 scalar kinds, String, Struct, Array 1-3 dims static/dynamic any axis order, Ref, UnionRef; <=8 nodes depth<=4 quick, <=16 nodes depth<=5 thorough) x generated in-range values x input forms x placements (context, buffer kind, capacity, alignment, grow step, allocate/free pre-history on poisoned memory, offset mode)"
CHECKS["C01"] = {
  "text": "Exploration: " + _GRAMMAR + "; every field/item/reference is read back through the public API and compared bit-exactly with the model value; to_nplike/to_nparray of every scalar array compared too. 16 workers x 1200 (quick) / 10000 (thorough) cases + corpus of fixed defects. Finite search, not a proof. Plus the exhaustive array layer: every array type with 1-3 axes of extent 1..3 or dynamic, every axis order, items in {Int8, Float64, String, dynamic struct, static struct}, two input forms (4200 cases quick, 6570 thorough with a second runtime-extent assignment incl. a zero extent).",
  "note": "In-range values, NUL-free strings, xobject inputs of the very class object; one buffer kind per context. Bounds on size/depth are search bounds only.",
  "technique": "property-based testing: generated types/values/input forms/placements, round-trip oracle against a model value",
}
CHECKS["C05"] = {
  "text": "Exploration: same case space as C01; an independent decoder (vlib/layout.py, written from the documentation and the statement, no xobjects import, self-validated by encode/decode round trip) decodes the raw bytes to the written value and checks the structural clauses (slot alignment of parts, containment, sibling disjointness, size words, memory-order item table, header strides, string termination/padding, null encodings). Plus the exhaustive array layer: every array type with 1-3 axes of extent 1..3 or dynamic, every axis order, items in {Int8, Float64, String, dynamic struct, static struct}, two input forms (4200 cases quick, 6570 thorough with a second runtime-extent assignment incl. a zero extent).",
  "note": "The statement governs where types.rst differs (references relative to their own slot). Padding bytes unconstrained; String(capacity) keeps size capacity+8.",
  "technique": "property-based testing with an independent reference decoder (differential oracle on raw bytes)",
}
CHECKS["C06"] = {
  "text": "Exploration: C01 case space + fitting leaf writes + buffer growth; the handle chain is compared with view chains rebuilt by _from_buffer (and views of views) at every nested compound: values, _shape, _strides, _size, _get_size(), offsets; writes through one side are read through the other. Plus the exhaustive array layer: every array type with 1-3 axes of extent 1..3 or dynamic, every axis order, items in {Int8, Float64, String, dynamic struct, static struct}, two input forms (4200 cases quick, 6570 thorough with a second runtime-extent assignment incl. a zero extent).",
  "note": "Fitting writes only (C11 covers misfits).",
  "technique": "property-based testing: metamorphic handle-vs-view comparison over generated types and write sequences",
}
CHECKS["C03"] = {
  "text": "Exploration: " + _GRAMMAR + "; the target is built into a hole between two live pattern-filled neighbours of a poisoned, traced buffer (freed hole / explicit offset / end), then 0..6 fitting assignments (leaf, whole nested struct/array, reference rebinding, growth) through handles/views. Raw-byte oracle: construction and every assignment change only bytes inside regions handed out by allocate() for this object (or during that assignment); reported sizes equal the extent; nesting and sibling disjointness from the independent layout model; reference targets in other allocated regions.",
  "note": "allocate/free/_new_buffer are wrapped on the buffer instance by the harness (no repo hook). Fitting assignments only.",
  "technique": "property-based testing: generated types/placements/assignment sequences, byte-diff oracle against traced allocations",
}
CHECKS["C09"] = {
  "text": "Exploration: generated types with raised reference weight x values x placements x destination {same buffer, other buffer, buffer of another context, _context= only, default} x later writes on either side. Oracle: copy equals model and original, extents disjoint, references of the copy (decoded by the independent layout model) resolve inside the copy's own buffer to allocated regions - the same referent when the buffer is shared, a duplicate otherwise - and writes to non-reference parts never show through.",
  "note": "Roots are struct/array/string objects; a stand-alone UnionRef is built from member objects, not from another UnionRef object.",
  "technique": "property-based testing: generated types/destinations/write sequences against a value model and a layout decoder",
}
CHECKS["C10"] = {
  "text": "Exploration: model-based histories (<=12 steps quick, <=40 thorough) of {set leaf, set whole nested struct/array of equal size, rebind reference, bind null, grow buffer} on generated objects, each step through the handle chain, a rebuilt view chain or a mix; after every step the full re-read (handle and view) equals the nested-python-value model, sizes/shapes/strides/offsets outside the assigned element are unchanged and a neighbour object reads the same.",
  "note": "Fitting assignments only (same structure, strings not longer than the one replaced); the assigned element may be re-laid out inside its own extent.",
  "technique": "model-based property testing: generated operation histories against a nested value model",
}
CHECKS["C11"] = {
  "text": "Exploration: generated objects with a live neighbour directly behind them x one misuse per case from the nine classes of the statement, parameterised over every element position; oracle: the operation raises, every live object reads the same, no byte inside a previously live extent changes ('accepted silently' and 'raised but modified' are separate clauses).",
  "note": "Misfits are chosen unambiguous (a string longer than the slot-rounded space reserved for it; an item longer than its whole array). Python-style wrap-around of negative in-range indices on arrays of dynamic items is accepted.",
  "technique": "property-based testing: generated objects x generated invalid operations, exception + no-side-effect oracle",
}
CHECKS["C02"] = {
  "text": "Exploration: generated types x values x placements (offset != 0, other live objects, growth); the accessor API is built through the library's own path (_gen_kernels + add_kernels + cffi) and EVERY access path (enumerated independently from the type expression) is called with EVERY in-range index tuple: get vs Python value, getp vs Python offset vs the independent layout model's address, len, typeid, member. 16 workers x 100 compiled types quick, x 1500 thorough (a tenth at the library's default -O3).",
  "note": "Sampling of types/objects on x86-64 with gcc; the symbolic all-header-words reading of the statement is not proved. Null-reference paths are not called (API precondition).",
  "technique": "property-based differential testing: compiled C accessors vs Python accessors vs independent layout model",
}
CHECKS["C07"] = {
  "text": "Exploration: as C02, plus every setter called on every scalar-leaf position with a generated value (full re-read equals model with exactly one element replaced; byte diff inside the element), and for ~40% of cases a stand-alone clang ASan+UBSan build of the emitted source with the object image in an exact-size malloc block calling every accessor with every in-range index (no report, results equal Python).",
  "note": "clang 14 sanitizers on x86-64; images are placed so that the object start is 16-aligned; reference-bearing objects use the buffer prefix as image.",
  "technique": "property-based testing with compiled differential oracle and compiler sanitizers",
}
CHECKS["C13"] = {
  "text": "Exploration with an exhaustive small scope: both CPU buffer kinds x every primitive (update_from_buffer over 8 Python source forms incl. ndarray.data of itemsize 1/2/4/8, update_from_native, copy_to_native, to_native, to_bytearray, to_pointer_arg, to_nplike/to_nparray over 10 dtypes and 1-3 dim shapes, update_from_nplike over all 100 dtype pairs x 5 source layouts, update_from_xbuffer same context / other context either kind / same buffer disjoint, the four scalar helpers for 10 kinds) x EVERY (offset, length) inside the buffer for capacities 0..10,16 (quick) / 0..24,32 (thorough), plus Hypothesis-generated cases up to 300 / 4096 bytes. Oracle: whole-buffer equality with a bytes reference model (exact range written, nothing else touched, storage length and capacity unchanged, sources unchanged), independence of extracted copies, two-way aliasing of typed views.",
  "note": "In-range requests only; one buffer kind per context; same-buffer xbuffer copies only with disjoint ranges; dtype conversions generated exact.",
  "technique": "exhaustive small-scope enumeration + property-based testing against a bytes reference model",
}
CHECKS["C14"] = {
  "text": "Exploration with an exhaustive small scope: dependency graphs over classes of every kind (field-less Struct, Struct, Array, UnionRef, HybridClass, declared-dependency-only Struct; edges through fields, Ref fields, anonymous array fields, array items, union members, _depends_on incl. cycles and self loops), root lists in any order with duplicates. Oracle from the harness' own dependency record: sort_classes lists every API class of the closure exactly once and after its dependencies, nothing else; the source written by add_kernels(compile=False) has one typedef block per class and no use before it; cffi accepts the declarations, gcc -fsyntax-only the source, a sample goes through the real add_kernels build; a cycle reachable from the roots raises and writes nothing. ALL graphs on <=3 (quick) / <=4 (thorough) classes are enumerated; Hypothesis generates graphs up to 6 / 7 classes.",
  "note": "Unique class names per case; hybrid roots passed as their _XoStruct; arrays and unions carry no declared dependencies.",
  "technique": "exhaustive small-scope enumeration + property-based testing of generated class graphs against a harness-side dependency model, cffi and gcc as acceptance oracles",
}
CHECKS["C19"] = {
  "text": "Exploration: (a) generated HybridClass definitions (10 scalar kinds, String, scalar arrays 1-3 dims static/dynamic any axis order, nested hybrid classes to depth 2/3, Ref to hybrid classes, _rename, declared defaults and default factories) x values with absent / equal-to-default / arbitrary fields: from_dict(to_dict()) read through attributes and through the struct equals the object and the model (same or other context, fixpoint on a second cycle), default elision of scalar/string/static-array fields, __class__ keys; (b) generated reference-free struct / 1-D array types x values: T(x._to_json()) equals x, _to_json fixpoint, and the same through json text with the library's JEncoder. 16 workers x 1500 / 15000 cases + corpus of fixed defects.",
  "note": "Value equality (-0.0 == 0.0, NaN == NaN, Ref fields by referent value). JSON text only for types without Float32 leaves.",
  "technique": "property-based round-trip testing over generated class definitions, types and values",
}
CHECKS["C20"] = {
  "text": "Exploration: groups of 1-4 objects of generated importable types (Struct roots of the full grammar, named Array roots, generated HybridClass objects) in 1-2 buffers of either CPU kind with a non-trivial free list, pickled together (protocols 2-5) and unpickled in-process and, for ~1/20 of the cases, in a fresh interpreter importing a generated module file. Oracle: equal at every field (handles and dressed attributes), _size restored, two-way write independence, buffer sharing structure preserved and no original buffer reused, capacity/get_free preserved, the unpickled buffer allocates at the same offsets as the original, a newly constructed object overlaps nothing. 16 workers x 300 / 3000 groups.",
  "note": "CPU contexts; classes importable through a synthetic module or a generated module file; fitting writes.",
  "technique": "property-based round-trip testing (pickle) with a value model and an allocator differential (original vs unpickled buffer)",
}
CHECKS["C08"] = {
  "text": "Exploration: model-based histories (<=14 steps quick, <=40 thorough) on generated reference-bearing holder types (Ref/UnionRef fields, arrays of references, references nested below arrays/structs/references) in a traced, poisoned buffer of either CPU kind: construct stand-alone objects (holder's buffer, other buffer, other context, containers for nested targets), bind-to-existing (incl. nested objects), bind-to-value, bind-to-foreign, bind-to-null, write-through-ref, write-through-original, grow / allocate-until-growth, through handles, views or a mix. After every step: holder and all stand-alone objects re-read equal to a shared-value object-graph model (alias vs copy semantics), aliased slots read the bound object's offset and buffer, copies land on offsets handed out by allocate() in the holder's buffer, null raw words, and every non-null slot decoded from raw bytes by the independent layout model resolves inside the buffer into a live allocated region and decodes to the model value; a sixth of the cases also compile the accessor API and compare <T>_typeid/<T>_member.",
  "note": "Bound objects are of the very class object of the slot's target; no reference cycles; fitting writes.",
  "technique": "model-based property testing: generated operation histories against an object-graph model and an independent byte-level decoder",
}
CHECKS["C18"] = {
  "text": "Exploration: model-based histories (<=12 steps quick, <=40 thorough) on generated HybridClass definitions (10 scalar kinds, String, scalar arrays 1-3 dims static/dynamic any axis order, nested hybrid classes, Ref to hybrid classes, _rename, defaults): set leaf at any depth, array element/slice/whole, hybrid field from dict, Ref field to None/data, copy (default/same buffer/other buffer/other context), move (incl. attempts on nested parts, on classes with references, on objects shared through a reference), assignment of hybrid objects to hybrid-typed fields from the same/another buffer/another context/the field's own object, later writes through the source. After every step, for every live top-level object: dressed attributes == underlying struct == model (shared Python values model shared referents), dressed parts sit at their struct field's offset and buffer, copy/share/refusal semantics and placement as stated. 16 workers x 1000 / 10000 histories + corpus of fixed defects.",
  "note": "Assigned objects are of the field's own class; BufferNumpy only (one buffer kind per context); dynamic nested objects are assigned only when their layout fits (C11 covers misfits).",
  "technique": "model-based property testing: generated class definitions and operation histories against a nested-value model with shared referents",
}
CHECKS["C15"] = {
  "text": "Exploration: generated type expressions of the full grammar x values; the accessor source is assembled for cpu_serial, cpu_openmp, opencl and cuda the way the contexts assemble it (GPU paths transcribed from the contexts' build_kernels: target header + class sources (+ extern \"C\") + specialize_source). Oracle: identical token streams of the class API after deleting the closed set of target qualifiers; every pointer declarator/cast of the OpenCL text carries __global and every handle typedef is __global struct; gcc/g++ -fsyntax-only accept each text with the target keywords defined away; for a third of the cases the OpenCL and CUDA texts are compiled on the host into shared objects and every get/getp/len/typeid/member accessor is executed with every in-range index on the same object as the CPU build (equal values and relative addresses). 16 workers x 80 / 1200 types.",
  "note": "No OpenCL/CUDA toolchain in the sandbox: host compilers stand in, as the statement allows; GPU contexts cannot be instantiated, their source assembly is transcribed.",
  "technique": "property-based differential testing of generated code across targets: token-stream comparison, qualifier scan, host compilation and execution",
}
CHECKS["C17"] = {
  "text": "Exploration: generated kernel signatures (1-6 arguments: the 10 scalar kinds by value; pointer-to-scalar with 1-D / sliced / strided / reversed / 2-D row-block / F-ordered / column-block / transposed ndarrays and static, dynamic and 2-D xobject arrays; Struct / Array / UnionRef / HybridClass xobjects sharing one buffer at non-zero offsets; optional scalar return) with generated echo-kernel C source, built by ctx.add_kernels and called through ctx.kernels on serial and OpenMP contexts, before and after 0-2 buffer growths. Oracle: byte-exact scalars, pointer == independently computed address of the first element / of the object's first byte at its current location, bytes behind it, one flipped byte per pointer exactly there and nothing else changed, bit-exact return value; positional / missing / extra / misspelt / wrong-element-type calls raise and change nothing. 16 workers x 50 / 800 signatures.",
  "note": "Values exactly representable in the declared C type; CPU contexts; a wild pointer that kills the interpreter is reported through the runner's crash triage with the replayable case.",
  "technique": "property-based testing with generated kernels: echo-kernel differential against byte-level expectations",
}
CHECKS["C16"] = {
  "text": "Exploration: kernel sources generated from the annotation vocabulary (1-3 kernels x 1-3 vectorize_over/end_vectorize blocks in both surface forms, gpukern / gpufun / gpuglmem / restrict placeholders, only_for_context lines inside and outside blocks, include_file ... for_context with generated files, unique unannotated filler lines) x n in {0,1,2,3,block-1,block,block+1,2*block+3} x CUDA block in {1,2,32,256}. Instrumented index-local bodies (per-index execution counters, canaries behind n, results that depend on which restricted lines / included files are active). Executed through ctx.add_kernels on ContextCpu() and ContextCpu(omp_num_threads=2) (each kernel twice), and as host-compiled OpenCL / CUDA expansions driven by the launch geometry recorded from the real KernelPyopencl.__call__ / KernelCupy.__call__ with the device function replaced by a recorder. Oracle: every index of every block exactly once per call on every target, canaries untouched, y equal to the per-target reference incl. n = 0; restricted lines active exactly where named, files spliced exactly where named, filler lines unchanged, once, in order; no placeholder left. 16 workers x 40 / 600 sources.",
  "note": "GPU expansions run on the host (no device): a defect that only a real OpenCL/CUDA compiler or scheduler would expose is out of reach; OpenMP with 2 threads, no control over the schedule.",
  "technique": "property-based testing of a source-to-source transformation: generated annotated programs, executed on CPU contexts and under a simulated GPU launch, against a reference semantics",
}
