#!/venv/bin/python
"""Regenerates MANIFEST.json from the table below and validates it."""
import json, os, sys
HERE = os.path.dirname(os.path.dirname(os.path.abspath(__file__)))
sys.path.insert(0, HERE)
from tools.manifest_table import CHECKS, NOT_APPLICABLE

props = [json.loads(l) for l in open(os.path.join(HERE, "properties.jsonl"))]
ids = [p["id"] for p in props]
checks = []
for cid in ids:
    if cid not in CHECKS:
        continue
    c = CHECKS[cid]
    checks.append({
        "property_id": cid,
        "quick_cmd": f"./check {cid} --tier quick",
        "thorough_cmd": f"./check {cid} --tier thorough",
        "evidence_file": f"/verif/evidence/{cid}.json",
        "replay_cmd_template": f"./check {cid} --replay {{path}}",
        "engine": "pbt-runner",
        "level_claimed": {"category": "exploration", "text": c["text"], "design_ref": c.get("design_ref", f"DESIGN.md section 3, {cid}")},
        "level_note": c["note"],
        "technique": c["technique"],
    })
na = [{"property_id": i, "reason": NOT_APPLICABLE.get(i, "check not implemented yet in this build; see DESIGN.md section 10 (build order)")} for i in ids if i not in CHECKS]
m = {
    "version": 1,
    "setup_cmd": "/venv/bin/python -c 'import hypothesis' 2>/dev/null || /venv/bin/pip install --no-index --find-links /opt/veriftools/wheels hypothesis",
    "hooks": {
        "guard": "XOBJECTS_VERIF",
        "enable": "no hooks: the checks observe xobjects through its public API, through wrappers installed on buffer instances by the harness and through the generated C source; the guard name is reserved and unused",
        "baseline_off_cmd": "cd /repo && /venv/bin/python -m pytest -ra -q -p no:cacheprovider --timeout=900 --continue-on-collection-errors",
        "source_commits": [],
        "add_only": True,
    },
    "engines": [
        {"name": "pbt-runner", "path": "vlib/main.py", "serves_properties": [c["property_id"] for c in checks],
         "kind_free_text": "Hypothesis-generated JSON cases (types, values, placements, operation histories) judged by explicit oracles; 16 worker processes with derived seeds; exhaustive small-scope sweeps where stated; corpus replay; known-finding attribution by feature + counterfactual"},
    ],
    "checks": checks,
    "not_applicable": na,
    "notes": "All checks: ./check <ID> --tier quick|thorough; VERIF_SEED seeds every random choice; exit 2 = harness error (never reported as a violation). known_findings.json lists fixed and open findings.",
}
json.dump(m, open(os.path.join(HERE, "MANIFEST.json"), "w"), indent=1)
try:
    import jsonschema
    jsonschema.validate(m, json.load(open("/root/.vp/MANIFEST.schema.json")))
    print("MANIFEST.json valid;", len(checks), "checks,", len(na), "not claimed")
except ImportError:
    print("written (jsonschema not available)")
