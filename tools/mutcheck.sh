#!/bin/bash
# tools/mutcheck.sh <patch.diff> <ID> [<ID>...]   -- run quick checks against a scratch worktree of /repo with the patch applied
# env: TIER (quick), EXAMPLES (optional per-worker override)
patch="$(realpath "$1")"; shift
wt="$(mktemp -d /tmp/mutwt_XXXXXX)"
git -C /repo worktree add -q --detach "$wt" HEAD || exit 3
trap 'git -C /repo worktree remove --force "$wt" >/dev/null 2>&1; rm -rf "$wt"' EXIT
git -C "$wt" apply "$patch" || { echo "PATCH DOES NOT APPLY"; exit 3; }
cd /verif
for id in "$@"; do
  extra=""
  [ -n "$EXAMPLES" ] && extra="--examples $EXAMPLES"
  out=$(VERIF_REPO="$wt" VERIF_EVIDENCE_DIR=/tmp/mut_evidence VERIF_REPLAY_DIR=/tmp/mut_replays ./check "$id" --tier "${TIER:-quick}" $extra 2>&1)
  rc=$?
  echo "== $id rc=$rc :: $(echo "$out" | grep -E "^$id |root cause|HARNESS" | head -4 | tr '\n' ' ')"
done
