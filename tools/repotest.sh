#!/bin/bash
cd /repo && timeout 1200 /venv/bin/python -m pytest -q -p no:cacheprovider 2>&1 | grep -E "^[0-9]+ passed|failed|error" | tail -3
