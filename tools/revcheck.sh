#!/bin/bash
# tools/revcheck.sh <fix commit> <ID> <replay.json>...  -- a corpus case must FAIL on a tree with that fix reverted
c="$1"; id="$2"; shift 2
wt="$(mktemp -d /tmp/revwt_XXXXXX)"
git -C /repo worktree add -q --detach "$wt" HEAD || exit 3
trap 'git -C /repo worktree remove --force "$wt" >/dev/null 2>&1; rm -rf "$wt"' EXIT
git -C "$wt" revert --no-commit "$c" >/dev/null 2>&1 || { echo "cannot revert $c cleanly"; exit 3; }
cd /verif
for f in "$@"; do
  out=$(VERIF_REPO="$wt" VERIF_REPLAY_DIR=/tmp/mut_replays ./check "$id" --replay "$f" 2>&1 | grep -v conda | tail -2 | tr '\n' ' ')
  echo "revert $c: $f -> $out" | cut -c1-400
done
