#!/venv/bin/python
"""prints a markdown table of /verif/seeded/*/meta.json (which checks caught which seeded change)"""
import glob, json, os, re
rows = []
for d in sorted(glob.glob("/verif/seeded/*")):
    m = json.load(open(d + "/meta.json"))
    name = os.path.basename(d)
    caught = [c["check"] for c in m["checks"] if c["rc"] == 1]
    missed = [c["check"] for c in m["checks"] if c["rc"] == 0]
    other = [f'{c["check"]}(rc={c["rc"]})' for c in m["checks"] if c["rc"] not in (0, 1)]
    first = ""
    try:
        txt = open(d + "/notes.md").read()
        lines = [l.strip("# -").strip() for l in txt.splitlines() if l.strip() and not l.lower().startswith("property:")]
        first = re.sub(r"\s+", " ", lines[0])[:110] if lines else ""
    except OSError:
        pass
    ok = m["confirmed"]["demo_exit_clean"] == 0 and m["confirmed"]["demo_exit_with_change"] != 0 and "163 passed" in m["confirmed"]["test_suite_with_change"]
    rows.append((name, m["property"], "yes" if ok else "NO", ", ".join(caught) or "-", ", ".join(missed + other) or "-", first))
print("| seeded change | property | confirmed | caught by (quick tier) | run but quiet | what |")
print("|---|---|---|---|---|---|")
for r in rows:
    print("| " + " | ".join(r) + " |")
print(f"\n{len(rows)} changes; caught by at least one check: {sum(1 for r in rows if r[3] != '-')}; not caught: {[r[0] for r in rows if r[3] == '-']}")
