#!/bin/bash
# tools/seedeval.sh <ID> <k> <check IDs...>
# Confirms a seeded change from /tmp/seedout/<ID>/m<k> in a scratch worktree of /repo HEAD (applies, test-suite passes, demo
# fails with / passes without), runs the given checks against it, and files it under /verif/seeded/<ID>-m<k>/ with meta.json.
id="$1"; k="$2"; shift 2
src="${SEEDSRC:-/tmp/seedout}/$id/m$k"
[ -f "$src/patch.diff" ] || { echo "no $src/patch.diff"; exit 3; }
wt="$(mktemp -d /tmp/seedeval_XXXXXX)"; run="$(mktemp -d /tmp/seedrun_XXXXXX)"
git -C /repo worktree add -q --detach "$wt" HEAD || exit 3
trap 'git -C /repo worktree remove --force "$wt" >/dev/null 2>&1; rm -rf "$wt" "$run"' EXIT
demo=$(ls "$src"/demo*.py | head -1)
cd "$run"
PYTHONPATH="$wt" timeout 600 /venv/bin/python "$demo" >/dev/null 2>&1; clean_rc=$?
git -C "$wt" apply "$src/patch.diff" || { echo "$id m$k: PATCH DOES NOT APPLY to HEAD"; exit 3; }
PYTHONPATH="$wt" timeout 600 /venv/bin/python "$demo" >"$run/demo.out" 2>&1; mut_rc=$?
suite=$(cd "$wt" && PYTHONPATH="$wt" timeout 1500 /venv/bin/python -m pytest -q -p no:cacheprovider 2>&1 | grep -E "passed|failed|error" | tail -1)
echo "$id m$k: demo clean rc=$clean_rc, with change rc=$mut_rc; suite: $suite"
results=""
cd /verif
for c in "$@"; do
  out=$(VERIF_REPO="$wt" VERIF_EVIDENCE_DIR=/tmp/mut_evidence VERIF_REPLAY_DIR=/tmp/mut_replays ./check "$c" --tier "${TIER:-quick}" ${EXAMPLES:+--examples $EXAMPLES} 2>&1); rc=$?
  line=$(echo "$out" | grep -E "root cause" | head -3 | sed 's/^ *root cause: //' | tr '\n' ';')
  echo "   check $c rc=$rc $line"
  results="$results{\"check\":\"$c\",\"rc\":$rc,\"root_causes\":\"$(echo "$line" | sed 's/"/\\"/g' | cut -c1-400)\"},"
done
prop="${SEEDPROP:-$id}"
dest="/verif/seeded/$prop-${SEEDTAG:-}m$k"; mkdir -p "$dest"
cp "$src/patch.diff" "$dest/patch.diff"; cp "$demo" "$dest/demo.py"; [ -f "$src/notes.md" ] && cp "$src/notes.md" "$dest/notes.md"
/venv/bin/python - "$dest" "$prop" "$clean_rc" "$mut_rc" "$suite" "[${results%,}]" <<'PY'
import json, sys, subprocess
dest, pid, crc, mrc, suite, res = sys.argv[1:7]
head = subprocess.run(["git", "-C", "/repo", "rev-parse", "--short", "HEAD"], capture_output=True, text=True).stdout.strip()
notes = ""
try: notes = open(dest + "/notes.md").read()
except OSError: pass
json.dump({"property": pid, "repo_head": head, "origin": "independent sub-agent given only the property text and a scratch worktree",
           "needs_to_manifest": notes[:1500],
           "confirmed": {"demo_exit_clean": int(crc), "demo_exit_with_change": int(mrc), "test_suite_with_change": suite,
                         "commands": ["git worktree add --detach <scratch> HEAD; git apply patch.diff", "PYTHONPATH=<scratch> /venv/bin/python demo.py (before and after applying)",
                                      "cd <scratch> && PYTHONPATH=<scratch> /venv/bin/python -m pytest -q -p no:cacheprovider", "VERIF_REPO=<scratch> ./check <ID> --tier quick"]},
           "checks": json.loads(res)}, open(dest + "/meta.json", "w"), indent=1)
PY
