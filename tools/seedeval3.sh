#!/bin/bash
# tools/seedeval3.sh <Fi> <k> [extra check IDs]  -- round 3 (seeded by file): property taken from the first line of notes.md
f="$1"; k="$2"; shift 2
prop=$(head -1 /tmp/seedout3/$f/m$k/notes.md | sed -E 's/.*property: *(C[0-9]+).*/\1/')
case "$prop" in C[0-9][0-9]) ;; *) echo "$f m$k: no property line"; exit 3;; esac
SEEDSRC=/tmp/seedout3 SEEDTAG="r3${f}" SEEDPROP="$prop" /verif/tools/seedeval.sh "$f" "$k" "$prop" "$@"
