#!/bin/bash
# tools/seedevalF.sh <round> <area> <k> [extra check IDs]  -- rounds seeded by source file (3: F1..F10, 6: G1..G8):
# the property is taken from the first line of notes.md
r="$1"; f="$2"; k="$3"; shift 3
prop=$(head -1 /tmp/seedout$r/$f/m$k/notes.md | sed -E 's/.*property: *(C[0-9]+).*/\1/')
case "$prop" in C[0-9][0-9]) ;; *) echo "$f m$k: no property line"; exit 3;; esac
SEEDSRC=/tmp/seedout$r SEEDTAG="r${r}${f}" SEEDPROP="$prop" /verif/tools/seedeval.sh "$f" "$k" "$prop" "$@"
