#!/venv/bin/python
import json, sys, glob
for pat in sys.argv[1:]:
    for f in sorted(glob.glob(pat)):
        d = json.load(open(f))
        print("==", f)
        print("  sig:", d["meta"].get("sig"))
        print("  detail:", d["meta"].get("detail", "")[:500])
        print("  case:", json.dumps(d["case"])[:900])
