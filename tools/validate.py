#!/opt/veriftools/pyvenv/bin/python
import json, glob, jsonschema, sys
ms = json.load(open("/root/.vp/MANIFEST.schema.json")); es = json.load(open("/root/.vp/EVIDENCE.schema.json"))
m = json.load(open("/verif/MANIFEST.json")); jsonschema.validate(m, ms)
bad = 0
for c in m["checks"]:
    p = c["evidence_file"]
    try:
        jsonschema.validate(json.load(open(p)), es); print("ok", p)
    except Exception as e:
        bad += 1; print("BAD", p, str(e)[:200])
sys.exit(1 if bad else 0)
