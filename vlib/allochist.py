"""Allocator histories shared by C04 and C12: generator and buffer factory.

case = {"kind": "numpy"|"bytearray", "cap": int, "align": int,
        "grow_step": int|None, "ops": [op...]}
op   = ["a", size, aligned]            allocate(size, align=aligned)
       ["ag", j, delta, aligned]       allocate(size of j-th gap between live
                                       regions (mod #gaps) + delta)
       ["f", k]                        free the k-th live region (mod #live)
       ["g", n]                        grow(n)
       ["v"]                           the caller takes a numpy view of the whole storage (to_nplike) and keeps it
                                       alive for the rest of the history (state outside the allocator)
"""

from hypothesis import strategies as st

ALIGNS = [1, 2, 4, 8, 16, 32, 64]


def make_buffer(case):
    import xobjects as xo
    from xobjects.context_cpu import BufferNumpy, BufferByteArray

    ctx = xo.ContextCpu()
    cls = BufferNumpy if case["kind"] == "numpy" else BufferByteArray
    return cls(
        capacity=case["cap"],
        context=ctx,
        default_alignment=case["align"],
        grow_step=case["grow_step"],
    )


def gaps(live, capacity):
    """free gaps = complement of the live regions in [0, capacity)"""
    out = []
    pos = 0
    for off, size in sorted(live):
        if off > pos:
            out.append((pos, off - pos))
        pos = max(pos, off + size)
    if capacity > pos:
        out.append((pos, capacity - pos))
    return out


def resolve(op, live, capacity, min_size):
    """turn a symbolic op into a concrete one (or None = skip)"""
    if op[0] == "a":
        return ("a", max(min_size, op[1]), bool(op[2]))
    if op[0] == "ag":
        g = gaps(live, capacity)
        if not g:
            size = 1 + op[2]
        else:
            size = g[op[1] % len(g)][1] + op[2]
        return ("a", max(min_size, size), bool(op[3]))
    if op[0] == "f":
        if not live:
            return None
        return ("f", op[1] % len(live))
    if op[0] == "g":
        return ("g", op[1])
    if op[0] == "v":
        return ("v",)
    raise ValueError(op)


@st.composite
def histories(draw, tier, min_size):
    thorough = tier == "thorough"
    kind = draw(st.sampled_from(["numpy", "bytearray"]))
    cap = draw(
        st.one_of(
            st.integers(0, 64),
            st.integers(0, 256),
            st.sampled_from([0, 1, 7, 8, 64, 100, 256, 1000, 4096]),
        )
    )
    align = draw(st.sampled_from(ALIGNS))
    grow_step = draw(
        st.one_of(
            st.none(),
            st.integers(1, 64),
            st.sampled_from([1, 2, 3]),
        )
    )
    maxlen = 400 if thorough else 60
    size = st.one_of(
        st.integers(min_size, 16),
        st.integers(min_size, 16),
        st.integers(min_size, max(min_size, cap + 70)),
        st.sampled_from([cap, cap + 1, max(min_size, cap - 1), 2 * cap + 1]).map(lambda x: max(min_size, x)),
    )
    op = st.one_of(
        st.tuples(st.just("a"), size, st.booleans()),
        st.tuples(st.just("a"), size, st.booleans()),
        st.tuples(st.just("ag"), st.integers(0, 7), st.sampled_from([0, 0, 1, -1, -8, 8]), st.booleans()),
        st.tuples(st.just("f"), st.integers(0, 15)),
        st.tuples(st.just("f"), st.integers(0, 15)),
        st.tuples(st.just("g"), st.one_of(st.integers(1, 16), st.integers(1, 300))),
        st.tuples(st.just("v")),
    ).map(list)
    ops = draw(st.lists(op, min_size=1, max_size=maxlen))
    # a rare class: huge request with a tiny growth step on a non-tiny buffer
    if draw(st.integers(0, 19)) == 19:
        cap = draw(st.sampled_from([2048, 4096, 8192]))
        grow_step = draw(st.sampled_from([1, 2, 3]))
        ops = [["a", cap, False]] + ops[:10] + [["a", cap - draw(st.integers(0, 64)), draw(st.booleans())]] + ops[10:20]
    return {"kind": kind, "cap": cap, "align": align, "grow_step": grow_step, "ops": ops}


# ---- exhaustive small scope ------------------------------------------------

ALPHABET = (
    [["a", s, al] for s in (1, 2, 3, 8) for al in (True, False)]
    + [["a", 0, True]]
    + [["f", k] for k in (0, 1, 2)]
    + [["g", n] for n in (1, 8)]
)
EXH_CONFIGS = [
    (kind, cap, al, gs)
    for kind in ("numpy", "bytearray")
    for cap in (0, 4, 8, 16)
    for al in (1, 4, 8)
    for gs in (None, 1, 8)
]


def exhaustive_jobs(maxlen):
    """one job per configuration and first letter"""
    return [
        {"config": cfg, "first": i, "maxlen": maxlen}
        for cfg in EXH_CONFIGS
        for i in range(len(ALPHABET))
    ]


def iter_job_histories(job):
    import itertools

    kind, cap, al, gs = job["config"]
    first = ALPHABET[job["first"]]
    for n in range(0, job["maxlen"]):
        for rest in itertools.product(ALPHABET, repeat=n):
            yield {
                "kind": kind,
                "cap": cap,
                "align": al,
                "grow_step": gs,
                "ops": [first] + list(rest),
            }


def keep_view(buf, views):
    """op ["v"]: a numpy view of the whole storage, kept alive by the caller"""
    if buf.capacity > 0:
        views.append(buf.to_nplike(0, "uint8", (int(buf.capacity),)))
