"""Executable specification of a first-fit, coalescing free list (C12).

State: sorted, maximal, non-empty free intervals [s, e) and the capacity.
Nothing here looks at the implementation's data structures.
"""


def align_up(x, al):
    return -(-x // al) * al


class FreeListModel:
    def __init__(self, capacity):
        self.capacity = capacity
        self.free = [[0, capacity]] if capacity > 0 else []

    def total_free(self):
        return sum(e - s for s, e in self.free)

    def find(self, size, al):
        """first (lowest-addressed) interval that holds `size` at alignment `al`"""
        for i, (s, e) in enumerate(self.free):
            a = align_up(s, al)
            if a + size <= e:
                return i, a
        return None

    def take(self, i, a, size):
        s, e = self.free[i]
        # [s, a) is alignment padding: lost (the statement allows that)
        if a + size == e:
            del self.free[i]
        else:
            self.free[i][0] = a + size

    def add_free(self, s, e):
        if e <= s:
            return
        self.free.append([s, e])
        self.free.sort()
        merged = []
        for iv in self.free:
            if merged and iv[0] <= merged[-1][1]:
                merged[-1][1] = max(merged[-1][1], iv[1])
            else:
                merged.append(list(iv))
        self.free = merged

    def grow_to(self, newcap):
        if newcap > self.capacity:
            self.add_free(self.capacity, newcap)
            self.capacity = newcap

    def largest(self):
        if not self.free:
            return None
        return max(self.free, key=lambda iv: (iv[1] - iv[0], -iv[0]))
