"""Exhaustive array layer shared by C01 / C05 / C06 (DESIGN.md 2.1):
{1..3 dims} x {extent 1..3 | dynamic} per axis x ALL axis orders x item in {Int8, Float64, String, dynamic struct,
static struct} x two runtime-extent assignments for the dynamic axes x two input forms.  Finite, so it is enumerated
completely instead of sampled."""

import itertools
import math

ITEMS = {
    "Int8": {"k": "scalar", "t": "Int8"},
    "Float64": {"k": "scalar", "t": "Float64"},
    "String": {"k": "string"},
    "DynStruct": {"k": "struct", "name": "LD", "fields": [["a", {"k": "scalar", "t": "Int32"}], ["s", {"k": "string"}]]},
    "StatStruct": {"k": "struct", "name": "LS", "fields": [["a", {"k": "scalar", "t": "Int16"}], ["b", {"k": "scalar", "t": "Float64"}]]},
}
PLACEMENT = {"ctx": "fresh", "buf": "numpy", "cap": 40, "align": 8, "grow_step": 24, "pre": [["a", 13, False], ["a", 5, True], ["f", 0]], "offset": None, "slack": 0}


def item_value(kind, i):
    if kind == "Int8":
        return (i * 7) % 120 - 60
    if kind == "Float64":
        return i + 0.5
    if kind == "String":
        return "s" * (i % 4) + str(i)
    if kind == "DynStruct":
        return {"a": 1000 + i, "s": "x" * ((i * 3) % 5)}
    return {"a": i - 3, "b": -1.25 * i}


def all_cases(tier):
    """deterministic list of (label, case) — no randomness"""
    out = []
    ext = (1, 2, 3, None)
    dyn_assign = ((2, 3, 1), (3, 0, 2)) if tier == "thorough" else ((2, 3, 1),)
    for nd in (1, 2, 3):
        for shape in itertools.product(ext, repeat=nd):
            for order in itertools.permutations(range(nd)):
                for kind, ispec in ITEMS.items():
                    for da in dyn_assign:
                        if da != dyn_assign[0] and None not in shape:
                            continue
                        rshape, k = [], 0
                        for d in shape:
                            if d is None:
                                rshape.append(da[k])
                                k += 1
                            else:
                                rshape.append(d)
                        n = math.prod(rshape)
                        spec = {"k": "array", "name": "L" + "".join(str(o) for o in order) + "_" + "".join("N" if d is None else str(d) for d in shape) + kind,
                                "item": ispec, "shape": list(shape), "order": list(order)}
                        value = {"shape": rshape, "flat": [item_value(kind, i) for i in range(n)]}
                        for form in (0, 1):
                            out.append({"type": spec, "value": value, "forms": [form], "placement": dict(PLACEMENT)})
    return out


def jobs(tier, njobs=48):
    n = len(all_cases(tier))
    return [{"lo": i * n // njobs, "hi": (i + 1) * n // njobs, "tier": tier} for i in range(njobs)]


def run_job(run_case, job, extra=None):
    cases = all_cases(job["tier"])[job["lo"]: job["hi"]]
    res = {"cases": 0, "nontrivial": 0, "labels": {}, "failures": [], "sample": None}
    seen = set()
    for case in cases:
        if extra:
            case = dict(case, **extra)
        out = run_case(case)
        res["cases"] += 1
        if out.nontrivial:
            res["nontrivial"] += 1
            if res["sample"] is None and len(case["type"]["shape"]) == 3:
                res["sample"] = case
        for lb in out.labels:
            res["labels"][lb] = res["labels"].get(lb, 0) + 1
        if not out.ok and out.sig not in seen:
            seen.add(out.sig)
            res["failures"].append({"case": case, "sig": out.sig, "clause": out.clause, "detail": out.detail})
    return res


SCOPE = {
    "quick": "array layer: every array type with 1-3 axes, each of extent 1..3 or dynamic, every axis order, items in {Int8, Float64, String, dynamic struct, static struct}, one runtime-extent assignment, two input forms (10920 cases)",
    "thorough": "array layer as quick plus a second runtime-extent assignment for the dynamic axes (including a zero extent)",
}
