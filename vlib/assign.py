"""Fitting assignments on a constructed object, mirrored on the model value.
Shared by C03 (byte locality), C10 (element locality) and C06."""

import numpy as np
from hypothesis import strategies as st

from . import typegen as tg
from . import mat
from .core import sut, is_raised

op_specs = st.fixed_dictionaries(
    {
        "kind": st.sampled_from(["leaf", "leaf", "leaf", "compound", "compound", "rebind", "null", "grow", "wild_string"]),
        "li": st.integers(0, 1000),
        "int": st.integers(-(2**63), 2**64 - 1),
        "float": st.floats(width=32),
        "text": tg._text,
        "via": st.sampled_from(["handle", "view", "mix"]),
    }
)


def fit_value(leafspec, w, current):
    if leafspec["k"] == "string":
        room = len(current.encode("utf8"))
        t = w["text"]
        while len(t.encode("utf8")) > room:
            t = t[:-1]
        return t
    t = leafspec["t"]
    if t in tg.INT_RANGE:
        lo, hi = tg.INT_RANGE[t]
        return lo + (w["int"] - lo) % (hi - lo + 1)
    return w["float"]


def reach(root, node, path, via, salt=0):
    """object at `path`, reached through the handle chain, a fresh view chain or a mix"""
    if via == "handle" or not hasattr(root, "_buffer"):
        return mat.obj_get(root, node, path)
    if via == "view":
        return mat.obj_get(mat.view_of(root), node, path)
    # mix: handle chain up to a split point, then a rebuilt view
    cut = salt % (len(path) + 1)
    o, n = mat.obj_get(root, node, path[:cut])
    if hasattr(o, "_buffer") and hasattr(type(o), "_from_buffer") and n.spec["k"] in ("struct", "array"):
        o = mat.view_of(o)
    return mat.obj_get(o, n, path[cut:])


def plain_arg(node, value):
    return mat.build_arg(node, value, mat.Forms([0]), mat.Env(None, None))


def apply_op(op, root, node, model, labels):
    """-> ("ok", assigned path | None) | Raised | ("skip",).  `model` is updated in place on success.
    One op in three addresses the items of arrays of dynamically sized items from the end (negative indices)."""
    mat.NEG_INDEX = op["int"] % 3 == 0
    try:
        r = _apply_op(op, root, node, model, labels)
    finally:
        mat.NEG_INDEX = False
    if op["int"] % 3 == 0 and not is_raised(r) and r[0] == "ok" and r[1] and "array_of_dynamic_items" in tg.type_labels(node.spec):
        labels.add("negative_index_addressing")
    return r


def _apply_op(op, root, node, model, labels):
    spec = node.spec
    kind = op["kind"]
    if kind == "grow":
        n = 1 + op["li"] % 200
        r = sut(root._buffer.grow, n)
        if is_raised(r):
            return r
        labels.add("op:grow")
        return ("ok", None)
    if kind == "wild_string":
        # a string whose size straddles the space reserved for it (multi-byte characters included): the library may
        # refuse it (C11 decides whether it must); if it accepts it, the value read back becomes the model value and
        # the callers' locality oracles apply as for any other assignment
        leaves = [(p, s) for p, s in mat.leaf_paths(spec, model) if p and s["k"] == "string"]
        if not leaves:
            return ("skip",)
        path, lspec = leaves[op["li"] % len(leaves)]
        _, cur = mat.model_get(spec, model, path)
        room = len(cur.encode("utf8"))
        slot_room = (room + 9 + 7) // 8 * 8 - 9  # bytes available up to the slot boundary
        ch = ["a", "\u00e9", "\u20ac", "\U0001F600"][op["int"] % 4]
        nb = len(ch.encode("utf8"))
        n = [slot_room // nb, slot_room // nb + 1, slot_room, slot_room + 1, max(slot_room - 1, 0), (slot_room + 8) // nb][op["li"] // 7 % 6]
        new = ch * n
        parent = sut(reach, root, node, path[:-1], op["via"], op["li"])
        if is_raised(parent):
            return parent
        r = sut(mat.obj_set, parent[0], parent[1], path[-1:], new)
        if is_raised(r):
            labels.add("op:wild_string_refused")
            return ("skip",)
        back = sut(lambda: mat.obj_get(root, node, path)[0])
        if is_raised(back):
            return back
        mat.model_set(spec, model, path, back if isinstance(back, str) else back.to_str())
        labels.add("op:wild_string_accepted")
        if len(new.encode("utf8")) > room:
            labels.add("op:wild_string_accepted_into_slot_slack")
        return ("ok", path)
    if kind == "leaf":
        leaves = [(p, s) for p, s in mat.leaf_paths(spec, model) if p]
        if not leaves:
            return ("skip",)
        path, lspec = leaves[op["li"] % len(leaves)]
        _, cur = mat.model_get(spec, model, path)
        new = fit_value(lspec, op, cur)
        parent = sut(reach, root, node, path[:-1], op["via"], op["li"])
        if is_raised(parent):
            return parent
        r = sut(mat.obj_set, parent[0], parent[1], path[-1:], new)
        if is_raised(r):
            return r
        mat.model_set(spec, model, path, new)
        labels.add("op:leaf")
        labels.add("via:" + op["via"])
        if any(s[0] == "d" for s in path):
            labels.add("op:leaf_through_reference")
        return ("ok", path)
    if kind == "compound":
        comps = [(p, s) for p, s in mat.compound_paths(spec, model) if p and p[-1][0] != "d"]
        if spec["k"] in ("struct", "array") and (op["li"] % 4 == 0 or not comps):
            comps = [([], spec)]  # the root itself, through _update()
        if not comps:
            return ("skip",)
        path, cspec = comps[op["li"] % len(comps)]
        _, cur = mat.model_get(spec, model, path)
        ctr = [0]

        def fresh(ls, v):
            # a different value for every leaf of the element (a permutation inside the element must be visible)
            ctr[0] += 1
            if ls["k"] == "string":
                return fit_value(ls, op, v)
            w = dict(op, int=op["int"] + 7 * ctr[0])
            if not ls["t"].startswith("Float"):
                return fit_value(ls, w, v)
            base = op["float"] if op["float"] == op["float"] and abs(op["float"]) < 1e6 else 0.0
            return float(int(base)) + ctr[0] * 0.5

        new = mat.map_scalars(cspec, cur, fresh, strings=op["int"] % 3 == 0)
        if op["int"] % 4 == 3:
            # references held directly by the element become null through the whole-element assignment
            for rp, _rs in mat.ref_slots(cspec, new):
                if all(st_[0] != "d" for st_ in rp) and mat.model_get(cspec, new, rp)[1] is not None:
                    mat.model_set(cspec, new, rp, None)
                    labels.add("op:compound_nulls_a_reference")
        cnode, _ = mat.node_at(node, model, path)
        arg = plain_arg(cnode, new)
        if cspec["k"] == "array" and cspec["item"]["k"] == "scalar" and op["int"] % 2 == 0 and isinstance(arg, list):
            arg = np.array(new["flat"], dtype=mat.NP_DTYPES[cspec["item"]["t"]]).reshape(new["shape"])
            labels.add("op:compound_ndarray")
        if op["int"] % 5 == 1 and hasattr(root, "_buffer"):
            # an existing object of the very same class, in the same or in another buffer of the context
            if cspec["k"] == "struct" and not tg.has_refs(cspec):
                # same total size, other split: the values of two string fields trade places (fits only as a whole)
                sf = [fn for fn, ft in cspec["fields"] if ft["k"] == "string"]
                if len(sf) >= 2 and len(cur[sf[0]].encode()) // 8 != len(cur[sf[1]].encode()) // 8:
                    swapped = dict(new)
                    swapped[sf[0]], swapped[sf[1]] = cur[sf[1]], cur[sf[0]]
                    # only fitting when the value occupies exactly the target's size (it is then copied as a whole)
                    tgt_now = sut(lambda: mat.obj_get(root, node, path)[0] if path else root)
                    probe = sut(cnode.cls, plain_arg(cnode, swapped))
                    if not is_raised(tgt_now) and not is_raised(probe) and int(probe._size) == int(tgt_now._size):
                        new = swapped
                        arg = plain_arg(cnode, new)
                        labels.add("op:compound_xobject_other_split")
            same = op["li"] % 2 == 0
            dst = root._buffer if same else type(root._buffer)(capacity=64, context=root._buffer.context)
            arg = sut(cnode.cls, arg, _buffer=dst)
            if is_raised(arg):
                return arg
            labels.add("op:compound_xobject_same_buffer" if same else "op:compound_xobject_other_buffer")
            if tg.has_refs(cspec):
                labels.add("op:compound_xobject_with_refs")
        if (cspec["k"] == "array" and len(cspec["shape"]) >= 2 and op["int"] % 5 == 2 and hasattr(root, "_buffer")
                and not tg.is_dynamic(cspec["item"]) and not tg.has_refs(cspec) and all(d > 0 for d in new["shape"])):
            # the value is an xobject array of ANOTHER class: same item type and shape, another axis order (element [i,j]
            # of the value must end up as element [i,j] of the target whatever the memory orders are)
            nd_ = len(cspec["shape"])
            other_order = list(reversed(cspec["order"])) if list(reversed(cspec["order"])) != list(cspec["order"]) else cspec["order"][1:] + cspec["order"][:1]
            ospec = dict(cspec, order=other_order, name="OO" + tg.type_name(cspec))
            onode = mat.materialise(ospec)
            arg = sut(onode.cls, plain_arg(onode, new), _buffer=root._buffer)
            if is_raised(arg):
                return arg
            labels.add("op:compound_array_of_other_axis_order")
        if not path:
            tgt = root if op["via"] == "handle" or not hasattr(root, "_buffer") else mat.view_of(root)
            r = sut(tgt._update, arg)
            if is_raised(r):
                return r
            if cspec["k"] == "struct":
                model.update(new)
            else:
                model["flat"][:] = new["flat"]
            labels.add("op:compound_root")
            labels.add("via:" + op["via"])
            return ("ok", path)
        parent = sut(reach, root, node, path[:-1], op["via"], op["li"])
        if is_raised(parent):
            return parent
        r = sut(mat.obj_set, parent[0], parent[1], path[-1:], arg)
        if is_raised(r):
            return r
        mat.model_set(spec, model, path, new)
        labels.add("op:compound_" + cspec["k"])
        if cspec["k"] == "array" and len(cspec["shape"]) > 1:
            labels.add("op:compound_nd_array")
        labels.add("via:" + op["via"])
        return ("ok", path)
    if kind in ("rebind", "null"):
        slots = mat.ref_slots(spec, model)
        if not slots:
            return ("skip",)
        path, rspec = slots[op["li"] % len(slots)]
        _, cur = mat.model_get(spec, model, path)
        if kind == "null" or cur is None:
            new, arg = None, None
            labels.add("op:bind_null")
        else:
            new = mat.map_scalars(rspec, cur, lambda ls, v: fit_value(ls, op, v))
            rnode, _ = mat.node_at(node, model, path)
            arg = plain_arg(rnode, new)
            labels.add("op:rebind_to_data")
            if rspec["k"] == "ref" and op["int"] % 2 == 1 and hasattr(root, "_buffer"):
                # the value is an object living in ANOTHER buffer - the same object every time a slot of this target
                # class is rebound this way in the case: each slot must get an independent copy of its current value
                import copy as _copy

                pool = root._buffer.__dict__.setdefault("_vf_foreign_objects", {})
                tnode = rnode.kids[0]
                if tnode.cls.__name__ not in pool:
                    fbuf = type(root._buffer)(capacity=64, context=root._buffer.context)
                    fobj = sut(tnode.cls, arg, _buffer=fbuf)
                    if is_raised(fobj):
                        return fobj
                    pool[tnode.cls.__name__] = (fobj, _copy.deepcopy(new))
                else:
                    labels.add("op:rebind_to_same_foreign_object_again")
                arg, new = pool[tnode.cls.__name__][0], _copy.deepcopy(pool[tnode.cls.__name__][1])
                labels.add("op:rebind_to_foreign_object")
        parent = sut(reach, root, node, path[:-1], op["via"], op["li"])
        if is_raised(parent):
            return parent
        r = sut(mat.obj_set, parent[0], parent[1], path[-1:], arg)
        if is_raised(r):
            return r
        mat.model_set(spec, model, path, new)
        labels.add("via:" + op["via"])
        return ("ok", path)
    raise ValueError(kind)
