"""Building and calling the generated C accessor API; API path enumeration from TypeSpecs."""

import os
import subprocess

import numpy as np

from . import typegen as tg
from . import mat

FAST_FLAGS = ("-O0", "-Wno-unused-function")


def quiet():
    import xobjects as xo

    xo.general._print.suppress = True


def compile_api(root_cls, ctx, default_flags=False, extra_kernels=None):
    """exactly the library's build path: T._gen_kernels() + ctx.add_kernels()"""
    quiet()
    kernels = dict(root_cls._gen_kernels())
    if extra_kernels:
        kernels.update(extra_kernels)
    if default_flags:
        ctx.add_kernels(kernels=kernels)
    else:
        ctx.add_kernels(kernels=kernels, extra_compile_args=FAST_FLAGS, extra_link_args=())
    return kernels


def base_address(obj):
    buf = obj._buffer.buffer
    return int(np.frombuffer(buf, dtype="int8").ctypes.data) + int(obj._offset) if len(buf) else 0


def to_int(kernel, r):
    """pointer results come back as cffi cdata"""
    ffi = kernel.ffi_interface
    if isinstance(r, ffi.CData):
        return int(ffi.cast("uintptr_t", r))
    return r


# --------------------------------------------------------------------------
# API paths derived from the TypeSpec only
# --------------------------------------------------------------------------
# api step: ["f", name] | ["i", nd] | ["d"]


def api_paths(spec, prefix=None, out=None):
    """[(steps, spec at the end)] for every path that has accessors"""
    if out is None:
        out = []
    prefix = prefix or []
    k = spec["k"]
    out.append((prefix, spec))
    if k == "struct":
        for fn, ft in spec["fields"]:
            if ft["k"] == "ref":
                api_paths(ft["to"], prefix + [["f", fn], ["d"]], out)
            else:
                api_paths(ft, prefix + [["f", fn]], out)
    elif k == "array":
        it = spec["item"]
        p = prefix + [["i", len(spec["shape"])]]
        if it["k"] == "ref":
            api_paths(it["to"], p + [["d"]], out)
        else:
            api_paths(it, p, out)
    # unionref: the API stops at the union (typeid / member)
    return out


def kernel_names(root_name, steps, last):
    fields = [s[1] for s in steps if s[0] == "f"]
    nidx = sum(s[1] for s in steps if s[0] == "i")
    suf = ("_" + "_".join(fields)) if fields else ""
    n = str(nidx) if nidx > 0 else ""
    names = {}
    k = last["k"]
    if k == "scalar":
        names["get"] = f"{root_name}_get{suf}"
        names["set"] = f"{root_name}_set{suf}"
    names["getp"] = f"{root_name}_getp{n}{suf}"
    if k == "array":
        names["len"] = f"{root_name}_len{n}{suf}"
    if k == "unionref":
        names["typeid"] = f"{root_name}_typeid{suf}"
        names["member"] = f"{root_name}_member{suf}"
    return names


def instances(spec, value, steps):
    """concrete occurrences of an api path in a model value:
    [(flat index list, concrete mat path, sub value)]; paths through null references are skipped"""
    out = []

    def rec(sp, val, i, idxs, cpath):
        if i == len(steps):
            out.append((idxs, cpath, val))
            return
        st = steps[i]
        if st[0] == "f":
            ft = dict((a, b) for a, b in sp["fields"])[st[1]]
            rec(ft, val[st[1]], i + 1, idxs, cpath + [["f", st[1]]])
        elif st[0] == "i":
            for idx, v in zip(tg.indices(val["shape"]), val["flat"]):
                rec(sp["item"], v, i + 1, idxs + list(idx), cpath + [["i", list(idx)]])
        else:
            if val is None:
                return
            rec(sp["to"], val, i + 1, idxs, cpath + [["d"]])

    rec(spec, value, 0, [], [])
    return out


def py_offset(root, node, cpath):
    """offset of the element as the Python accessors report it"""
    if not cpath:
        return int(root._offset)
    if cpath[-1][0] == "d":
        o, _ = mat.obj_get(root, node, cpath)
        return int(o._offset)
    parent, pnode = mat.obj_get(root, node, cpath[:-1])
    st = cpath[-1]
    if st[0] == "f":
        kid = mat._kid(pnode, st)
        if kid.spec["k"] in ("struct", "array"):
            return int(getattr(parent, st[1])._offset)
        return int(parent._get_offset(st[1]))
    idx = st[1]
    key = idx[0] if len(idx) == 1 else tuple(idx)
    kid = pnode.kids[0]
    if kid.spec["k"] in ("struct", "array"):
        return int(parent[key]._offset)
    return int(parent._get_offset(key))


def layout_steps(cpath):
    out = []
    for st in cpath:
        if st[0] == "f":
            out.append(("field", st[1]))
        elif st[0] == "i":
            out.append(("index", tuple(st[1])))
        else:
            out.append(("deref",))
    return out


# --------------------------------------------------------------------------
# stand-alone compilation helpers (sanitizers, syntax checks)
# --------------------------------------------------------------------------


def _lift_limits():
    import resource

    soft, hard = resource.getrlimit(resource.RLIMIT_AS)
    resource.setrlimit(resource.RLIMIT_AS, (hard, hard))  # sanitizer runtimes reserve terabytes of address space


def run(cmd, **kw):
    return subprocess.run(cmd, stdout=subprocess.PIPE, stderr=subprocess.STDOUT, text=True, preexec_fn=_lift_limits, **kw)


def syntax_ok(source, lang, defines=(), workdir="."):
    ext = {"c": ".c", "c++": ".cpp"}[lang]
    path = os.path.join(workdir, "syn" + ext)
    with open(path, "w") as f:
        f.write(source)
    if lang == "c":
        cmd = ["gcc", "-std=c99", "-fsyntax-only", "-w"] + [f"-D{d}" for d in defines] + [path]
    else:
        cmd = ["g++", "-fsyntax-only", "-w"] + [f"-D{d}" for d in defines] + [path]
    r = run(cmd)
    return r.returncode == 0, r.stdout[-1500:]


def san_program(source, workdir, name="san"):
    """clang ASan+UBSan stand-alone program; returns (exit code, output)"""
    src = os.path.join(workdir, name + ".c")
    exe = os.path.join(workdir, name)
    with open(src, "w") as f:
        f.write(source)
    r = run(["clang", "-std=c99", "-O1", "-g", "-fsanitize=address,undefined", "-fno-sanitize-recover=all", "-w", "-o", exe, src])
    if r.returncode != 0:
        return None, "COMPILE FAILED\n" + r.stdout[-3000:]
    env = dict(os.environ)
    env["ASAN_OPTIONS"] = "detect_leaks=0"
    env["UBSAN_OPTIONS"] = "print_stacktrace=1"
    r = run([exe], env=env, timeout=120)
    return r.returncode, r.stdout
