"""Small shared pieces: outcomes, digests, known findings, guarded SUT calls."""

import hashlib
import json
import os
import traceback

HERE = os.path.dirname(os.path.dirname(os.path.abspath(__file__)))


class HarnessError(Exception):
    pass


class Outcome:
    """Result of running one case against the oracle."""

    __slots__ = ("ok", "clause", "detail", "labels", "nontrivial", "sigkey")

    def __init__(self, ok=True, clause="", detail="", labels=(), nontrivial=False, sigkey=""):
        self.ok = ok
        self.clause = clause
        self.detail = detail
        self.labels = list(labels)
        self.nontrivial = nontrivial
        self.sigkey = sigkey

    @property
    def sig(self):
        return f"{self.clause}|{self.sigkey}"

    def __repr__(self):
        return f"Outcome(ok={self.ok}, clause={self.clause!r}, sigkey={self.sigkey!r}, detail={self.detail[:300]!r})"


def fail(clause, detail="", sigkey="", labels=(), nontrivial=False):
    return Outcome(False, clause, str(detail)[:2000], labels, nontrivial, sigkey)


class Finding:
    """An open known finding: structural feature + counterfactual."""

    def __init__(self, has_feature, neutralise):
        self.has_feature = has_feature
        self.neutralise = neutralise


def canon(obj):
    return json.dumps(obj, sort_keys=True, separators=(",", ":"), default=str)


def digest(obj):
    return hashlib.sha1(canon(obj).encode()).hexdigest()[:16]


def trim(case, limit=1500):
    s = canon(case)
    if len(s) <= limit:
        return case
    return {"truncated_case_json": s[:limit] + "...", "full_length": len(s)}


_known_cache = None


def load_known(cid=None):
    global _known_cache
    if _known_cache is None:
        p = os.path.join(HERE, "known_findings.json")
        if os.path.exists(p):
            with open(p) as f:
                _known_cache = json.load(f)["findings"]
        else:
            _known_cache = []
    if cid is None:
        return _known_cache
    return [k for k in _known_cache if k["property"] == cid]


class Raised:
    """An exception raised by the system under test."""

    def __init__(self, exc):
        self.exc = exc
        self.type = type(exc).__name__
        self.msg = str(exc)[:300]
        self.frame = innermost_repo_frame(exc)

    def __repr__(self):
        return f"Raised({self.type}: {self.msg} @ {self.frame})"

    @property
    def key(self):
        return f"{self.type}@{self.frame}"


def innermost_repo_frame(exc):
    tb = traceback.extract_tb(exc.__traceback__)
    last = None
    for fr in tb:
        fn = fr.filename.replace("\\", "/")
        if "/xobjects/" in fn and "/verif/" not in fn:
            last = f"{os.path.basename(fn)}:{fr.name}"
    return last or "outside-xobjects"


def sut(fn, *a, **k):
    """Call into the system under test; exceptions become values.

    KeyboardInterrupt/SystemExit/MemoryError of the interpreter are not
    caught.  RecursionError is (it is an Exception subclass).
    """
    try:
        return fn(*a, **k)
    except Exception as e:  # noqa: BLE001 - judged by the oracle
        return Raised(e)


def is_raised(x):
    return isinstance(x, Raised)
