"""Generated HybridClass definitions (C18, C19, C20).

HSpec (JSON):
  {"name":"H3","fields":[F,...], "rename":{xo:py}}
  F = {"n":"f0","t":T,"default":v|absent,"factory":bool}
  T = {"k":"scalar","t":"Int32"} | {"k":"string"}
    | {"k":"array","item":{"k":"scalar",..},"shape":[..],"order":[..],"name":None}
    | {"k":"hybrid","h":HSpec} | {"k":"ref","h":HSpec}

`to_typespec(hspec)` gives the TypeSpec of the underlying `_XoStruct`, so that
vlib.mat.walk / typegen value tools work on `h._xobject` unchanged.
"""

import copy
import math

import numpy as np
from hypothesis import strategies as st

from . import typegen as tg
from . import mat


def to_typespec(h):
    fields = []
    for f in h["fields"]:
        t = f["t"]
        if t["k"] == "hybrid":
            fields.append([f["n"], to_typespec(t["h"])])
        elif t["k"] == "ref":
            fields.append([f["n"], {"k": "ref", "to": to_typespec(t["h"])}])
        elif t["k"] == "refarr":
            fields.append([f["n"], {"k": "ref", "to": t["arr"]}])
        else:
            fields.append([f["n"], t])
    return {"k": "struct", "name": h["name"] + "Data", "fields": fields}


def pyname(h, xo_name):
    return h.get("rename", {}).get(xo_name, xo_name)


def subclasses(h, out=None):
    if out is None:
        out = []
    for f in h["fields"]:
        if f["t"]["k"] in ("hybrid", "ref"):
            subclasses(f["t"]["h"], out)
    out.append(h)
    return out


def hybrid_labels(h):
    lb = set()
    for hh in subclasses(h):
        if hh.get("rename"):
            lb.add("has_rename")
            if any(v.startswith("_") for v in hh["rename"].values()):
                lb.add("renamed_to_underscore_name")
        for f in hh["fields"]:
            t = f["t"]
            lb.add("field:" + t["k"])
            if "default" in f:
                lb.add("has_default_factory" if f.get("factory") else "has_default")
                if isinstance(f["default"], dict) and "$len" in f["default"]:
                    lb.add("array_default_declared_as_length")
                if f["n"] in hh.get("rename", {}):
                    lb.add("renamed_field_with_default")
            if t["k"] == "array":
                nd = len(t["shape"])
                lb.add(f"array_{nd}d")
                if any(d is None for d in t["shape"]):
                    lb.add("array_dynamic")
                if list(t["order"]) != list(range(nd)):
                    lb.add("array_non_C_order")
    if len(subclasses(h)) > 1:
        lb.add("nested_classes")
    return lb


# --------------------------------------------------------------------------
# materialise
# --------------------------------------------------------------------------


class HNode:
    """hybrid class + Node tree of its _XoStruct + child HNodes by xo field name"""

    def __init__(self, hspec, cls, node, kids):
        self.h = hspec
        self.cls = cls
        self.node = node
        self.kids = kids


def materialise(h, module=None, registry=None, base=None):
    """`base`: a HybridClass the ROOT class derives from (its _xofields are redeclared by the generated class)"""
    import xobjects as xo

    if registry is None:
        registry = {}
    if h["name"] in registry:
        return registry[h["name"]]
    xofields = {}
    kidnodes = []
    kids = {}
    for f in h["fields"]:
        t = f["t"]
        if t["k"] in ("scalar", "string", "array"):
            nd = mat.materialise(t, module=module)
            ftype = nd.cls
            kidnodes.append(nd)
        elif t["k"] == "refarr":
            an = mat.materialise(t["arr"], module=module)
            ftype = xo.Ref[an.cls]
            kidnodes.append(mat.Node({"k": "ref", "to": t["arr"]}, ftype, [an]))
        elif t["k"] == "hybrid":
            hk = materialise(t["h"], module, registry)
            kids[f["n"]] = hk
            ftype = hk.cls
            kidnodes.append(hk.node)
        else:
            hk = materialise(t["h"], module, registry)
            kids[f["n"]] = hk
            ftype = xo.Ref(hk.cls)
            kidnodes.append(mat.Node({"k": "ref", "to": hk.node.spec}, ftype, [hk.node]))
        if "default" in f:
            dv = f["default"]
            if t["k"] == "array" and "$len" in dv:
                dv = dv["$len"]  # a dynamic array whose default is declared as a length
            elif t["k"] == "array":
                dv = tg.to_nested(dv)
            if f.get("factory"):
                ftype = xo.Field(ftype, default_factory=(lambda v=dv: v))
            else:
                ftype = xo.Field(ftype, default=dv)
        xofields[f["n"]] = ftype
    body = {"_xofields": xofields}
    if h.get("rename"):
        body["_rename"] = dict(h["rename"])
    if module:
        body["__module__"] = module
        body["__qualname__"] = h["name"]
    cls = type(h["name"], (base or xo.HybridClass,), body)
    if module:
        cls._XoStruct.__module__ = module
        cls._XoStruct.__qualname__ = cls._XoStruct.__name__
    # field types handed to the metaclass as HybridClass are replaced by their _XoStruct
    for f, kn in zip(h["fields"], kidnodes):
        if f["t"]["k"] in ("ref", "refarr"):
            kn.cls = getattr(cls._XoStruct, f["n"]).ftype
    node = mat.Node(to_typespec(h), cls._XoStruct, kidnodes)
    hn = HNode(h, cls, node, kids)
    registry[h["name"]] = hn
    return hn


# --------------------------------------------------------------------------
# reading a dressed object through its Python attributes
# --------------------------------------------------------------------------


def hwalk(obj, hn):
    """model value (keyed by xo field names) read through the dressed attributes"""
    out = {}
    for f in hn.h["fields"]:
        t = f["t"]
        v = getattr(obj, pyname(hn.h, f["n"]))
        if t["k"] == "scalar":
            out[f["n"]] = mat.pyscalar(t, v)
        elif t["k"] == "string":
            out[f["n"]] = v if isinstance(v, str) else v.to_str()
        elif t["k"] == "array":
            a = np.asarray(v)
            out[f["n"]] = {"shape": [int(x) for x in a.shape], "flat": [mat.pyscalar(t["item"], x) for x in a.reshape(-1)] if a.size else []}
        elif t["k"] == "refarr":
            an = [k for g, k in zip(hn.h["fields"], hn.node.kids) if g["n"] == f["n"]][0].kids[0]
            out[f["n"]] = None if v is None else mat.walk(v, an)
        elif t["k"] == "hybrid":
            out[f["n"]] = hwalk(v, hn.kids[f["n"]])
        else:
            if v is None:
                out[f["n"]] = None
            elif hasattr(v, "_xobject"):
                out[f["n"]] = hwalk(v, hn.kids[f["n"]])
            else:  # undressed struct view
                out[f["n"]] = mat.walk(v, hn.kids[f["n"]].node)
    return out


def init_kwargs(hn, value, forms=None):
    """constructor keyword arguments (python names) for a model value; fields whose value is
    {"$absent":1} are left out (their default applies)"""
    kw = {}
    for f in hn.h["fields"]:
        v = value[f["n"]]
        if isinstance(v, dict) and "$absent" in v:
            continue
        kw[pyname(hn.h, f["n"])] = plain(f["t"], v, hn.kids.get(f["n"]))
    return kw


def plain(t, v, kid=None):
    if t["k"] in ("scalar", "string"):
        return v
    if t["k"] == "array":
        flat = v["flat"]
        dt = mat.NP_DTYPES[t["item"]["t"]]
        return np.array(flat, dtype=dt).reshape(v["shape"]) if flat else np.zeros(v["shape"], dtype=dt)
    if t["k"] == "refarr":
        return None if v is None else plain(t["arr"], v)
    if t["k"] == "hybrid":
        return {pyname_inner(kid, k): plain_field(kid, k, x) for k, x in v.items() if not (isinstance(x, dict) and "$absent" in x)}
    if t["k"] == "ref":
        if v is None:
            return None
        return {pyname_inner(kid, k): plain_field(kid, k, x) for k, x in v.items() if not (isinstance(x, dict) and "$absent" in x)}
    raise ValueError(t["k"])


def pyname_inner(kid, xo_name):
    # nested dicts go straight to the _XoStruct constructor: xo names
    return xo_name


def plain_field(hn, xo_name, v):
    for f in hn.h["fields"]:
        if f["n"] == xo_name:
            return plain(f["t"], v, hn.kids.get(xo_name))
    raise KeyError(xo_name)


def expected(h, value):
    """model value with absent fields replaced by their defaults"""
    out = {}
    for f in h["fields"]:
        v = value[f["n"]]
        t = f["t"]
        if isinstance(v, dict) and "$absent" in v:
            out[f["n"]] = default_of(f)
        elif t["k"] == "hybrid":
            out[f["n"]] = expected(t["h"], v)
        elif t["k"] == "ref":
            out[f["n"]] = None if v is None else expected(t["h"], v)
        else:
            out[f["n"]] = v
    return out


def default_of(f):
    t = f["t"]
    if "default" in f:
        if t["k"] == "array" and "$len" in f["default"]:
            z = 0.0 if t["item"]["t"].startswith("Float") else 0
            return {"shape": [f["default"]["$len"]], "flat": [z] * f["default"]["$len"]}
        return copy.deepcopy(f["default"])  # models are mutated in place: never hand out the spec's own object
    if t["k"] == "scalar":
        return 0.0 if t["t"].startswith("Float") else 0
    if t["k"] == "array":
        n = math.prod(t["shape"])
        z = 0.0 if t["item"]["t"].startswith("Float") else 0
        return {"shape": list(t["shape"]), "flat": [z] * n}
    if t["k"] == "hybrid":
        return {g["n"]: default_of(g) for g in t["h"]["fields"]}
    if t["k"] in ("ref", "refarr"):
        return None
    raise ValueError("no default for " + t["k"])


def has_usable_default(f):
    t = f["t"]
    if "default" in f:
        return True
    if t["k"] in ("scalar", "ref", "refarr"):
        return True
    if t["k"] == "array":
        return all(d is not None for d in t["shape"])
    if t["k"] == "hybrid":
        return all(has_usable_default(g) for g in t["h"]["fields"])
    return False


# --------------------------------------------------------------------------
# strategies
# --------------------------------------------------------------------------


class HCfg:
    def __init__(self, tier="quick", **kw):
        self.max_fields = 5
        self.max_depth = 2 if tier == "quick" else 3
        self.allow_refs = True
        self.allow_defaults = True
        self.allow_rename = True
        self.allow_nd = True
        self.allow_dynamic = True
        self.allow_orders = True
        self.allow_refarr = False  # Ref to an array of scalars (exercised by C18 only)
        self.__dict__.update(kw)


@st.composite
def hspecs(draw, cfg):
    namer = tg._Namer()
    return _draw_h(draw, cfg, namer, 0)


def _draw_h(draw, cfg, namer, depth):
    name = namer.next("H")
    nf = draw(st.integers(1, cfg.max_fields))
    fields = []
    for i in range(nf):
        kinds = ["scalar"] * 3 + ["string", "array", "array"]
        if depth < cfg.max_depth:
            kinds += ["hybrid"] * 2
            if cfg.allow_refs:
                kinds += ["ref"] * 2
        if cfg.allow_refarr:
            kinds += ["refarr"]
        k = draw(st.sampled_from(kinds))
        f = {"n": f"f{i}"}
        if k == "scalar":
            f["t"] = {"k": "scalar", "t": draw(st.sampled_from(tg.SCALARS))}
            if cfg.allow_defaults and draw(st.integers(0, 2)) == 0:
                f["default"] = draw(tg.scalar_values(f["t"]["t"]).filter(lambda x: x == x))
                f["factory"] = draw(st.booleans())
        elif k == "string":
            f["t"] = {"k": "string"}
            if cfg.allow_defaults and draw(st.integers(0, 3)) == 0:
                f["default"] = draw(tg._text)
        elif k == "array":
            nd = draw(st.sampled_from([1, 1, 2, 3])) if cfg.allow_nd else 1
            shape = []
            for _ in range(nd):
                if cfg.allow_dynamic and draw(st.integers(0, 3)) == 0:
                    shape.append(None)
                else:
                    shape.append(draw(st.integers(1, 3)))
            order = list(range(nd))
            if nd > 1 and cfg.allow_orders and draw(st.integers(0, 2)) == 0:
                order = list(draw(st.permutations(order)))
            t = {"k": "array", "name": None, "item": {"k": "scalar", "t": draw(st.sampled_from(tg.SCALARS))}, "shape": shape, "order": order}
            if order != list(range(nd)):
                t["name"] = namer.next("A")
            f["t"] = t
            if cfg.allow_defaults and shape == [None] and draw(st.integers(0, 2)) == 0:
                f["default"] = {"$len": draw(st.integers(0, 4))}
                f["factory"] = False
            elif cfg.allow_defaults and all(d is not None for d in shape) and nd == 1 and draw(st.integers(0, 3)) == 0:
                n = math.prod(shape)
                f["default"] = {"shape": list(shape), "flat": [draw(tg.scalar_values(t["item"]["t"]).filter(lambda x: x == x)) for _ in range(n)]}
        elif k == "refarr":
            f["t"] = {"k": "refarr", "arr": {"k": "array", "name": None, "item": {"k": "scalar", "t": draw(st.sampled_from(tg.SCALARS))}, "shape": [None], "order": [0]}}
        elif k == "hybrid":
            f["t"] = {"k": "hybrid", "h": _draw_h(draw, cfg, namer, depth + 1)}
        else:
            f["t"] = {"k": "ref", "h": _draw_h(draw, cfg, namer, depth + 1)}
        fields.append(f)
    h = {"name": name, "fields": fields}
    if cfg.allow_rename and draw(st.integers(0, 2)) == 0:
        ren = {}
        for f in fields:
            if draw(st.booleans()):
                # "_name" is the usual way to hide a field behind a property
                ren[f["n"]] = ("_" if draw(st.integers(0, 2)) == 0 else "r_") + f["n"]
        if ren:
            h["rename"] = ren
    return h


def hvalues(draw, h, absent_ok=True):
    """model value of a hybrid object (dict by xo names); fields with a usable default may be absent or
    deliberately equal to the default"""
    cfg = tg.Cfg("quick")
    out = {}
    for f in h["fields"]:
        t = f["t"]
        mode = draw(st.integers(0, 5))
        if absent_ok and mode == 0 and has_usable_default(f):
            out[f["n"]] = {"$absent": 1}
            continue
        if mode == 1 and has_usable_default(f) and t["k"] in ("scalar", "string", "array"):
            out[f["n"]] = default_of(f)
            continue
        if t["k"] == "hybrid":
            out[f["n"]] = hvalues(draw, t["h"], absent_ok)
        elif t["k"] == "ref":
            out[f["n"]] = None if draw(st.integers(0, 3)) == 0 else hvalues(draw, t["h"], absent_ok)
        elif t["k"] == "refarr":
            out[f["n"]] = None if draw(st.integers(0, 2)) == 0 else tg._draw_value(draw, t["arr"], cfg)
        else:
            out[f["n"]] = tg._draw_value(draw, t, cfg)
    return out
