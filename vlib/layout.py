"""Independent model of the documented binary layout (never imports xobjects).

Written from Architecture.md, docs/architecture/types.rst and the statement of
property C05:

* 8-byte slots; dynamically sized objects begin with their total size;
* struct: static fields in declaration order (each padded to a slot), then one
  offset word for the 2nd and later dynamic fields, then the dynamic data in
  declaration order (the first dynamic field starts right after the table);
* array: [size] unless static shape and static item; dynamic dimensions in
  axis order; strides (one word per axis) when nd > 1 and the shape is dynamic;
  for dynamically sized items a table of item offsets (relative to the array
  start) arranged in the array's memory order; then the data;
* string: size, UTF-8 bytes, at least one NUL, NUL padding up to the size;
* Ref: int64 relative to its own slot, null = -2**63; UnionRef: [relative
  offset, member index], null = [-2**63, -1].
"""

import math
import struct as _struct

from .typegen import SCALAR_SIZE, is_dynamic, indices

NULL = -(2**63)

_FMT = {
    "Float64": "<d",
    "Float32": "<f",
    "Int64": "<q",
    "UInt64": "<Q",
    "Int32": "<i",
    "UInt32": "<I",
    "Int16": "<h",
    "UInt16": "<H",
    "Int8": "<b",
    "UInt8": "<B",
}


class LayoutError(Exception):
    """the bytes do not follow the documented layout"""

    def __init__(self, clause, msg):
        super().__init__(f"{clause}: {msg}")
        self.clause = clause


def slot(n):
    return (n + 7) // 8 * 8


def i64(mem, off):
    if off < 0 or off + 8 > len(mem):
        raise LayoutError("out_of_image", f"int64 read at {off} outside image of {len(mem)} bytes")
    return int.from_bytes(mem[off : off + 8], "little", signed=True)


def static_size(spec):
    k = spec["k"]
    if k == "scalar":
        return SCALAR_SIZE[spec["t"]]
    if k == "ref":
        return 8
    if k == "unionref":
        return 16
    if k == "struct":
        return sum(slot(static_size(t)) for _, t in spec["fields"])
    if k == "array":
        return slot(static_size(spec["item"]) * math.prod(spec["shape"]))
    raise ValueError("dynamic type has no static size")


def strides_for(shape, order, itemsize):
    """byte strides per index axis; `order` lists the axes from slowest to fastest"""
    st = [0] * len(shape)
    acc = itemsize
    for ax in reversed(list(order)):
        st[ax] = acc
        acc *= shape[ax]
    return st


# --------------------------------------------------------------------------
# struct / array header parsing
# --------------------------------------------------------------------------


def struct_layout(spec, mem, off):
    """-> (size, {field name: absolute offset})"""
    fields = spec["fields"]
    dyn = [fn for fn, ft in fields if is_dynamic(ft)]
    pos = {}
    if not dyn:
        cur = 0
        for fn, ft in fields:
            pos[fn] = off + cur
            cur += slot(static_size(ft))
        return cur, pos
    size = i64(mem, off)
    cur = 8
    for fn, ft in fields:
        if not is_dynamic(ft):
            pos[fn] = off + cur
            cur += slot(static_size(ft))
    table = {}
    for fn in dyn[1:]:
        table[fn] = cur
        cur += 8
    pos[dyn[0]] = off + cur
    for fn in dyn[1:]:
        rel = i64(mem, off + table[fn])
        pos[fn] = off + rel
    return size, pos


def array_layout(spec, mem, off):
    """-> dict(size, shape, strides (documented), header_strides|None, data_offset, table_offset|None, itemsize)"""
    shape_decl = spec["shape"]
    nd = len(shape_decl)
    dyn_shape = any(d is None for d in shape_decl)
    dyn_item = is_dynamic(spec["item"])
    cur = 0
    size = None
    if dyn_shape or dyn_item:
        size = i64(mem, off)
        cur += 8
    shape = []
    for d in shape_decl:
        if d is None:
            shape.append(i64(mem, off + cur))
            cur += 8
        else:
            shape.append(d)
    if any(d < 0 for d in shape):
        raise LayoutError("array_header", f"negative dimension in {shape}")
    header_strides = None
    if dyn_shape and nd > 1:
        header_strides = [i64(mem, off + cur + 8 * i) for i in range(nd)]
        cur += 8 * nd
    itemsize = 8 if dyn_item else static_size(spec["item"])
    n = math.prod(shape)
    if n * max(itemsize, 1) > max(len(mem) - off, 0):
        # garbage header words: the items cannot lie inside the image (also keeps the decoder itself bounded)
        raise LayoutError("array_header", f"shape {shape} x item size {itemsize} does not fit in the {len(mem) - off} bytes behind offset {off}")
    strides = strides_for(shape, spec["order"], itemsize)
    table_offset = None
    if dyn_item:
        table_offset = cur
        cur += 8 * n
    if size is None:
        size = slot(itemsize * n)
    return {
        "size": size,
        "shape": shape,
        "strides": strides,
        "header_strides": header_strides,
        "data_offset": cur if not dyn_item else None,
        "table_offset": table_offset,
        "itemsize": itemsize,
        "n": n,
    }


def item_address(spec, mem, off, lay, idx, header_strides=False):
    """header_strides=True: use the strides stored in the header where the layout has them (the documented address
    expression of C02 is in terms of the header words, whatever they are)"""
    st = lay["header_strides"] if header_strides and lay["header_strides"] is not None else lay["strides"]
    lin = sum(i * s for i, s in zip(idx, st))
    if lay["table_offset"] is not None:
        rel = i64(mem, off + lay["table_offset"] + lin)
        return off + rel
    return off + lay["data_offset"] + lin


# --------------------------------------------------------------------------
# decode
# --------------------------------------------------------------------------


def decode(spec, mem, off):
    k = spec["k"]
    if k == "scalar":
        n = SCALAR_SIZE[spec["t"]]
        if off < 0 or off + n > len(mem):
            raise LayoutError("out_of_image", f"scalar at {off}")
        return _struct.unpack(_FMT[spec["t"]], mem[off : off + n])[0]
    if k == "string":
        size = i64(mem, off)
        if size < 9 or off + size > len(mem):
            raise LayoutError("string_size", f"string at {off} has size {size}, image {len(mem)}")
        data = mem[off + 8 : off + size]
        z = data.find(b"\x00")
        if z < 0:
            raise LayoutError("string_not_terminated", f"string at {off}: no NUL in {size - 8} data bytes")
        if any(data[z:]):
            raise LayoutError("string_padding", f"string at {off}: non-NUL bytes after the terminator")
        try:
            return data[:z].decode("utf8")
        except UnicodeDecodeError as e:
            raise LayoutError("string_utf8", f"string at {off}: {e}")
    if k == "struct":
        _, pos = struct_layout(spec, mem, off)
        return {fn: decode(ft, mem, pos[fn]) for fn, ft in spec["fields"]}
    if k == "array":
        lay = array_layout(spec, mem, off)
        flat = [decode(spec["item"], mem, item_address(spec, mem, off, lay, idx)) for idx in indices(lay["shape"])]
        return {"shape": lay["shape"], "flat": flat}
    if k == "ref":
        rel = i64(mem, off)
        if rel == NULL:
            return None
        return decode(spec["to"], mem, off + rel)
    if k == "unionref":
        rel = i64(mem, off)
        tid = i64(mem, off + 8)
        if rel == NULL:
            if tid != -1:
                raise LayoutError("union_null", f"null union reference at {off} has member index {tid}, expected -1")
            return None
        if not (0 <= tid < len(spec["members"])):
            raise LayoutError("union_member", f"union reference at {off}: member index {tid}")
        return [tid, decode(spec["members"][tid], mem, off + rel)]
    raise ValueError(k)


def object_size(spec, mem, off):
    if not is_dynamic(spec):
        return static_size(spec)
    return i64(mem, off)


# --------------------------------------------------------------------------
# extents and structural clauses
# --------------------------------------------------------------------------


def extents(spec, mem, off, path="", out=None, follow_refs=True, root=None):
    """list of (path, start, end, kind, parent_index); reference targets get parent None"""
    if out is None:
        out = []
    _extents(spec, mem, off, path, out, None, follow_refs)
    return out


def _extents(spec, mem, off, path, out, parent, follow_refs):
    k = spec["k"]
    size = object_size(spec, mem, off)
    me = len(out)
    out.append((path, off, off + size, k, parent))
    if k == "struct":
        _, pos = struct_layout(spec, mem, off)
        for fn, ft in spec["fields"]:
            _extents(ft, mem, pos[fn], f"{path}.{fn}", out, me, follow_refs)
    elif k == "array":
        lay = array_layout(spec, mem, off)
        if spec["item"]["k"] != "scalar":
            for idx in indices(lay["shape"]):
                _extents(spec["item"], mem, item_address(spec, mem, off, lay, idx), f"{path}{list(idx)}", out, me, follow_refs)
    elif k == "ref" and follow_refs:
        rel = i64(mem, off)
        if rel != NULL:
            _extents(spec["to"], mem, off + rel, path + "->", out, None, follow_refs)
    elif k == "unionref" and follow_refs:
        rel = i64(mem, off)
        tid = i64(mem, off + 8)
        if rel != NULL and 0 <= tid < len(spec["members"]):
            _extents(spec["members"][tid], mem, off + rel, path + f"->{tid}", out, None, follow_refs)


def structure_problems(spec, mem, off):
    """structural clauses of C05, each (clause, message)"""
    probs = []
    try:
        ext = extents(spec, mem, off)
    except LayoutError as e:
        return [(e.clause, str(e))]
    # roots of separately allocated objects (root + reference targets): parent None
    for i, (path, s, e, k, parent) in enumerate(ext):
        if parent is None:
            continue
        ps, pe = ext[parent][1], ext[parent][2]
        if (s - ps) % 8 != 0:
            probs.append(("part_not_on_slot", f"{path or '<root>'} starts at +{s - ps} inside its parent"))
        if s < ps or e > pe:
            probs.append(("part_outside_parent", f"{path} [{s},{e}) outside parent [{ps},{pe})"))
    # siblings disjoint
    by_parent = {}
    for i, (path, s, e, k, parent) in enumerate(ext):
        if parent is not None:
            by_parent.setdefault(parent, []).append((s, e, path))
    for parent, kids in by_parent.items():
        kids.sort()
        for (s1, e1, p1), (s2, e2, p2) in zip(kids, kids[1:]):
            if s2 < e1:
                probs.append(("siblings_overlap", f"{p1} [{s1},{e1}) and {p2} [{s2},{e2})"))
    _struct_problems(spec, mem, off, "", probs)
    return probs


def _struct_problems(spec, mem, off, path, probs):
    k = spec["k"]
    try:
        if is_dynamic(spec) and k != "string":
            size = i64(mem, off)
            if size % 8 != 0:
                probs.append(("size_not_slot_multiple", f"{path or '<root>'} size {size}"))
        if k == "struct":
            size, pos = struct_layout(spec, mem, off)
            dyn = [fn for fn, ft in spec["fields"] if is_dynamic(ft)]
            # dynamic data in declaration order, contiguous after the table
            prev_end = None
            for fn, ft in spec["fields"]:
                if fn in dyn:
                    st = pos[fn]
                    if prev_end is not None and st < prev_end:
                        probs.append(("dynamic_field_order", f"{path}.{fn} starts at {st - off}, previous dynamic field ended at {prev_end - off}"))
                    prev_end = st + slot(object_size(ft, mem, st))
            if dyn and prev_end is not None and prev_end - off > size:
                probs.append(("struct_size", f"{path or '<root>'}: size word {size}, parts end at {prev_end - off}"))
            for fn, ft in spec["fields"]:
                _struct_problems(ft, mem, pos[fn], f"{path}.{fn}", probs)
        elif k == "array":
            lay = array_layout(spec, mem, off)
            if lay["header_strides"] is not None and lay["n"] > 0 and lay["header_strides"] != lay["strides"]:
                probs.append(("array_strides", f"{path}: header strides {lay['header_strides']}, documented {lay['strides']} for shape {lay['shape']} order {spec['order']}"))
            if lay["table_offset"] is not None:
                # items in memory order, contiguous
                order = spec["order"]
                shape = lay["shape"]
                mem_shape = [shape[a] for a in order]
                expect = lay["table_offset"] + 8 * lay["n"]
                for midx in indices(mem_shape):
                    idx = [0] * len(shape)
                    for a, i in zip(order, midx):
                        idx[a] = i
                    addr = item_address(spec, mem, off, lay, idx)
                    if addr - off < expect:
                        probs.append(("item_table_order", f"{path}: item {idx} at +{addr - off}, before the end (+{expect}) of its predecessor in memory order"))
                        break
                    expect = addr - off
                    expect += slot(object_size(spec["item"], mem, addr))
                if lay["n"] == 0 or not probs:
                    if slot(expect) > lay["size"]:
                        probs.append(("array_size", f"{path}: size word {lay['size']}, parts end at {expect}"))
            elif is_dynamic(spec):
                end = lay["data_offset"] + lay["itemsize"] * lay["n"]
                if slot(end) > lay["size"]:
                    probs.append(("array_size", f"{path}: size word {lay['size']}, data ends at {end}"))
            if spec["item"]["k"] != "scalar":
                for idx in indices(lay["shape"]):
                    _struct_problems(spec["item"], mem, item_address(spec, mem, off, lay, idx), f"{path}{list(idx)}", probs)
        elif k == "ref":
            rel = i64(mem, off)
            if rel != NULL:
                _struct_problems(spec["to"], mem, off + rel, path + "->", probs)
        elif k == "unionref":
            rel = i64(mem, off)
            tid = i64(mem, off + 8)
            if rel != NULL and 0 <= tid < len(spec["members"]):
                _struct_problems(spec["members"][tid], mem, off + rel, path + f"->{tid}", probs)
    except LayoutError as e:
        probs.append((e.clause, f"{path}: {e}"))


# --------------------------------------------------------------------------
# encode (reference-free types): used for self-validation and synthetic images
# --------------------------------------------------------------------------


def encode(spec, value):
    k = spec["k"]
    if k == "scalar":
        return _struct.pack(_FMT[spec["t"]], value)
    if k == "string":
        data = value.encode("utf8")
        size = slot(len(data) + 1 + 8)
        return size.to_bytes(8, "little") + data + b"\x00" * (size - 8 - len(data))
    if k == "struct":
        fields = spec["fields"]
        dyn = [fn for fn, ft in fields if is_dynamic(ft)]
        parts = {fn: encode(ft, value[fn]) for fn, ft in fields}
        out = bytearray()
        if dyn:
            out += b"\x00" * 8
        for fn, ft in fields:
            if fn not in dyn:
                b = parts[fn]
                out += b + b"\x00" * (slot(len(b)) - len(b))
        if dyn:
            table_at = len(out)
            out += b"\x00" * (8 * (len(dyn) - 1))
            for j, fn in enumerate(dyn):
                if j > 0:
                    out[table_at + 8 * (j - 1) : table_at + 8 * j] = len(out).to_bytes(8, "little")
                b = parts[fn]
                out += b + b"\x00" * (slot(len(b)) - len(b))
            out[0:8] = len(out).to_bytes(8, "little")
        return bytes(out)
    if k == "array":
        shape = value["shape"]
        nd = len(shape)
        dyn_shape = any(d is None for d in spec["shape"])
        dyn_item = is_dynamic(spec["item"])
        n = math.prod(shape)
        out = bytearray()
        if dyn_shape or dyn_item:
            out += b"\x00" * 8
        for d, v in zip(spec["shape"], shape):
            if d is None:
                out += v.to_bytes(8, "little")
        itemsize = 8 if dyn_item else static_size(spec["item"])
        strides = strides_for(shape, spec["order"], itemsize)
        if dyn_shape and nd > 1:
            for s in strides:
                out += s.to_bytes(8, "little")
        order = spec["order"]
        mem_shape = [shape[a] for a in order]
        from .typegen import flat_index

        items_mem = []
        for midx in indices(mem_shape):
            idx = [0] * nd
            for a, i in zip(order, midx):
                idx[a] = i
            items_mem.append(encode(spec["item"], value["flat"][flat_index(idx, shape)]))
        if dyn_item:
            table_at = len(out)
            out += b"\x00" * (8 * n)
            for j, b in enumerate(items_mem):
                out[table_at + 8 * j : table_at + 8 * j + 8] = len(out).to_bytes(8, "little")
                out += b + b"\x00" * (slot(len(b)) - len(b))
        else:
            for b in items_mem:
                out += b
        out += b"\x00" * (slot(len(out)) - len(out))
        if dyn_shape or dyn_item:
            out[0:8] = len(out).to_bytes(8, "little")
        return bytes(out)
    raise ValueError(f"encode: {k} not supported (references need a buffer)")


# --------------------------------------------------------------------------
# addressing along a path (C02)
# --------------------------------------------------------------------------


def locate(spec, mem, off, steps, header_strides=False):
    """steps: ("field", name) | ("index", tuple) | ("deref",)  -> (spec, address) or (None, None) for null"""
    for st in steps:
        k = spec["k"]
        if st[0] == "field":
            _, pos = struct_layout(spec, mem, off)
            off = pos[st[1]]
            spec = dict(spec["fields"])[st[1]] if not isinstance(spec["fields"], dict) else spec["fields"][st[1]]
        elif st[0] == "index":
            lay = array_layout(spec, mem, off)
            off = item_address(spec, mem, off, lay, st[1], header_strides)
            spec = spec["item"]
        elif st[0] == "deref":
            rel = i64(mem, off)
            if rel == NULL:
                return None, None
            if k == "ref":
                spec = spec["to"]
            else:
                tid = i64(mem, off + 8)
                spec = spec["members"][tid]
            off = off + rel
        else:
            raise ValueError(st)
    return spec, off


# --------------------------------------------------------------------------
# synthetic header contents (C02, second engine)
# --------------------------------------------------------------------------


def perturb_headers(spec, mem, off, rnd, log):
    """In place, on a bytearray image of a reference-free object: give header words values the Python writer never
    produces but that the documented address expressions must honour:
      * N-D dynamic-shape arrays of static items: the stride words are multiplied by random factors;
      * arrays of dynamically sized items: the item-offset table is permuted (every entry still points to an item).
    Recurses into the parts (located with the words as they now are)."""
    k = spec["k"]
    if k == "struct":
        _, pos = struct_layout(spec, mem, off)
        for fn, ft in spec["fields"]:
            perturb_headers(ft, mem, pos[fn], rnd, log)
    elif k == "array":
        lay = array_layout(spec, mem, off)
        nd = len(spec["shape"])
        if lay["header_strides"] is not None and lay["table_offset"] is None and lay["n"] > 0:
            # strides live after [size][dynamic dims]
            ndyn = sum(1 for d in spec["shape"] if d is None)
            at = off + 8 + 8 * ndyn
            for a in range(nd):
                f = rnd.choice([1, 1, 2, 3, 5])
                new = lay["header_strides"][a] * f + rnd.choice([0, 0, 8])
                mem[at + 8 * a : at + 8 * a + 8] = int(new).to_bytes(8, "little", signed=True)
            log.add("strides_scaled")
        elif lay["table_offset"] is not None and lay["n"] > 1:
            at = off + lay["table_offset"]
            words = [bytes(mem[at + 8 * j : at + 8 * j + 8]) for j in range(lay["n"])]
            rnd.shuffle(words)
            for j, w in enumerate(words):
                mem[at + 8 * j : at + 8 * j + 8] = w
            log.add("item_table_permuted")
        if spec["item"]["k"] in ("struct", "array") and lay["table_offset"] is not None:
            lay = array_layout(spec, mem, off)
            for j in range(lay["n"]):
                rel = i64(mem, off + lay["table_offset"] + 8 * j)
                perturb_headers(spec["item"], mem, off + rel, rnd, log)
        # static items of a static-item array hold no header words of their own that could differ per item,
        # except nested dynamic-shape... those are dynamic items; nothing to do
