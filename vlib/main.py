"""Runner shared by all checks.

    ./check <ID> --tier quick|thorough
    ./check <ID> --replay <file.json>

Exit codes: 0 property held on everything explored (KNOWN-FINDING lines may be
printed), 1 at least one violation that known_findings.json does not list
(`VIOLATION property=<id> replay=<path>`), 2 harness error.

A check module (checks/cNN.py) provides

    ID, RULE, ASSUMPTIONS
    strategy(tier)            -> hypothesis strategy producing JSON-able cases
    run_case(case)            -> Outcome
    budget(tier)              -> {"examples": per-worker example count, ...}
  optional
    FINDINGS                  -> {finding id: Finding(has_feature, neutralise)}
    exhaustive_jobs(tier)     -> list of picklable job descriptions
    run_exhaustive_job(job)   -> ExhaustiveResult
    essential_labels(tier)    -> labels that must be non-empty (generator health)
"""

import argparse
import gc
import concurrent.futures as cf
from concurrent.futures.process import BrokenProcessPool
import subprocess
import hashlib
import importlib
import json
import multiprocessing as mp
import os
import shutil
import sys
import tempfile
import time
import traceback

HERE = os.path.dirname(os.path.dirname(os.path.abspath(__file__)))
REPO = os.environ.get("VERIF_REPO", "/repo")
if REPO not in sys.path:
    sys.path.insert(0, REPO)
if HERE not in sys.path:
    sys.path.insert(0, HERE)

from vlib import core  # noqa: E402
from vlib.core import (  # noqa: E402
    Outcome,
    HarnessError,
    canon,
    digest,
    load_known,
    trim,
)

MAX_ROUNDS = 4  # root causes looked for beyond the first one


def _stage_timeout(tier):
    """wall-clock ceiling of one stage (exhaustive sweep / one round of generated search): a safety net against hung
    workers only - an order of magnitude above the slowest stage observed on the unchanged tree"""
    return int(os.environ.get("VERIF_STAGE_TIMEOUT", "5400" if tier == "quick" else "28800"))


def _guarded_map(pool, fn, args, tier):
    """pool.map with the stage ceiling; on expiry the workers are killed BEFORE the exception leaves the pool's context
    (leaving it would otherwise wait for the hung workers)"""
    it = pool.map(fn, args, chunksize=1, timeout=_stage_timeout(tier))
    while True:
        try:
            res = next(it)
        except StopIteration:
            return
        except cf.TimeoutError:
            for p_ in list((getattr(pool, "_processes", None) or {}).values()):
                try:
                    p_.kill()
                except Exception:  # noqa: BLE001
                    pass
            raise
        yield res


def derive_seed(seed, cid, widx, rnd):
    h = hashlib.sha256(f"{seed}|{cid}|{widx}|{rnd}".encode()).digest()
    return int.from_bytes(h[:8], "big")


# --------------------------------------------------------------------------
# judging one case: oracle + known-finding attribution by counterfactual
# --------------------------------------------------------------------------


def _sut_root():
    return os.path.realpath(os.path.join(os.environ.get("VERIF_REPO", "/repo"), "xobjects")) + os.sep


_TINY, _MINNORM, _ONE, _HALF = 5e-324, 2.2250738585072014e-308, 1.0, 0.5


def _fp_mode_ok():
    """subnormal numbers are neither flushed on input (DAZ) nor on output (FTZ) in this thread"""
    return _TINY * _ONE != 0.0 and _MINNORM * _HALF != 0.0


def _fp_mode_restore():
    import ctypes
    import ctypes.util

    libm = ctypes.CDLL(ctypes.util.find_library("m") or "libm.so.6")
    libm.fesetenv(ctypes.c_void_p(-1))  # FE_DFL_ENV of glibc
    return _fp_mode_ok()


def run_case_guarded(mod, case):
    """run_case plus two guards (see _run_case_guarded for the first).  Second guard: the floating-point mode of the
    calling thread is process state the library must not alter; when a case leaves it altered (subnormal numbers
    flushed to zero - what loading code built with -ffast-math does) the mode is restored so that the campaign can go
    on, and for the properties that promise faithful delivery of every value through compiled code (FP_MODE_MATTERS)
    the case is a violation: values of the subnormal range can no longer be stored or passed faithfully."""
    before = _fp_mode_ok()
    out = _run_case_guarded(mod, case)
    if before and not _fp_mode_ok():
        restored = _fp_mode_restore()
        if getattr(mod, "FP_MODE_MATTERS", False) and out.ok:
            return core.fail(
                "floating_point_mode_switched",
                "after this case subnormal numbers are flushed to zero in the calling thread (5e-324 * 1.0 == 0): code "
                "loaded by the library switched the processor's floating-point mode, so Float32/Float64 values of the "
                "subnormal range are no longer delivered or stored faithfully" + ("" if restored else " (mode could not be restored)"),
                "",
                out.labels,
            )
    return out


def _run_case_guarded(mod, case):
    """run_case; an exception raised INSIDE the library under test that escaped the check's own sut() wrappers (a
    navigation or a message formatted from a live object) is the library failing on an operation the check performs on
    every case of the unchanged tree: it is reported as a violation of the property, not as a harness error.
    Exceptions raised by harness code itself propagate (exit 2)."""
    try:
        return mod.run_case(case)
    except Exception as e:  # noqa: BLE001
        import traceback

        frames = traceback.extract_tb(e.__traceback__)
        inner = frames[-1] if frames else None
        if inner is None or not os.path.realpath(inner.filename).startswith(_sut_root()):
            raise
        hf = [f for f in frames if "/verif/" in f.filename or f.filename.startswith(os.path.dirname(os.path.dirname(os.path.abspath(__file__))))]
        at = f"{os.path.basename(hf[-1].filename)}:{hf[-1].name}" if hf else "?"
        return core.fail(
            "library_raised_during_check",
            f"{type(e).__name__}: {e} raised in {os.path.basename(inner.filename)}:{inner.name} (reached from {at})",
            f"{type(e).__name__}@{os.path.basename(inner.filename)}:{inner.name}",
        )


def judge(mod, case, open_findings):
    """returns (outcome, known_id or None, case actually judged)"""
    out = run_case_guarded(mod, case)
    if out.ok:
        return out, None, case
    findings = getattr(mod, "FINDINGS", {})
    cur_case, cur_out = case, out
    for fid in open_findings:
        f = findings.get(fid)
        if f is None:
            continue
        if f.has_feature(cur_case, cur_out):
            ncase = f.neutralise(cur_case, cur_out)
            if ncase is None:
                continue
            nout = run_case_guarded(mod, ncase)
            if nout.ok:
                return cur_out, fid, cur_case
            cur_case, cur_out = ncase, nout
    return cur_out, None, cur_case


# --------------------------------------------------------------------------
# worker: one hypothesis run
# --------------------------------------------------------------------------


class _Stats:
    def __init__(self):
        self.evals = 0
        self.nontrivial = set()
        self.labels = {}
        self.samples = []
        self.known = {}
        self.excluded_hits = 0

    def add(self, case, out, known):
        self.evals += 1
        for lb in out.labels:
            self.labels[lb] = self.labels.get(lb, 0) + 1
        if out.nontrivial:
            d = digest(case)
            if d not in self.nontrivial:
                self.nontrivial.add(d)
                if len(self.samples) < 3:
                    self.samples.append(trim(case))
        if known:
            self.known[known] = self.known.get(known, 0) + 1

    def dump(self):
        return {
            "evals": self.evals,
            "nontrivial": sorted(self.nontrivial),
            "labels": self.labels,
            "samples": self.samples,
            "known": self.known,
            "excluded_hits": self.excluded_hits,
        }


def _limit_memory():
    """a case that makes the library ask for an absurd amount of memory must end in MemoryError (judged by the
    oracle), not in the kernel's OOM killer; only the soft limit is lowered so that sanitizer subprocesses can lift it"""
    import resource

    soft, hard = resource.getrlimit(resource.RLIMIT_AS)
    want = int(os.environ.get("VERIF_MEM_LIMIT_GB", "8")) << 30
    if soft == resource.RLIM_INFINITY or soft > want:
        resource.setrlimit(resource.RLIMIT_AS, (want, hard))


def _worker(args):
    cid, tier, seed, widx, rnd, excluded, examples = args
    scratch = tempfile.mkdtemp(prefix=f"vf_{cid}_{widx}_")
    os.chdir(scratch)
    _limit_memory()
    try:
        res = _worker_inner(cid, tier, seed, widx, rnd, excluded, examples)
        _crash_note(widx, None)
        return res
    except HarnessError as e:
        return {"harness_error": f"{e}\n{traceback.format_exc()}"}
    except Exception as e:  # anything escaping here is a harness bug
        return {"harness_error": f"{type(e).__name__}: {e}\n{traceback.format_exc()}"}
    finally:
        os.chdir("/")
        shutil.rmtree(scratch, ignore_errors=True)


def _crash_note(widx, case):
    """the case a worker is about to run, kept on disk so that a worker killed by a signal (wild pointer in generated C,
    stack overflow) still yields a replayable case"""
    d = os.environ.get("VERIF_CRASHDIR")
    if not d:
        return
    path = os.path.join(d, f"w{widx}.json")
    if case is None:
        try:
            os.remove(path)
        except OSError:
            pass
    else:
        with open(path, "w") as f:
            f.write(canon(case))


def _worker_inner(cid, tier, seed, widx, rnd, excluded, examples):
    import hypothesis
    from hypothesis import given, settings, HealthCheck, Phase

    mod = importlib.import_module(f"checks.{cid.lower()}")
    open_findings = [k["id"] for k in load_known(cid) if k["status"] == "open"]
    stats = _Stats()
    excluded = set(excluded)
    last_fail = {}

    class _Violation(Exception):
        pass

    strat = mod.strategy(tier)
    shrink_budget = getattr(mod, "SHRINK_BUDGET", 400)
    ncases = [0]
    shrink_seconds = float(os.environ.get("VERIF_SHRINK_SECONDS", "45"))

    @hypothesis.seed(derive_seed(seed, cid, widx, rnd))
    @settings(
        max_examples=examples,
        database=None,
        deadline=None,
        derandomize=False,
        report_multiple_bugs=False,
        suppress_health_check=list(HealthCheck),
        phases=[Phase.generate, Phase.shrink],
        print_blob=False,
    )
    @given(strat)
    def prop(case):
        if last_fail:
            # bounded shrinking: compile-bound checks cannot afford hundreds of shrink attempts
            # (and none can afford minutes of shrinking on cases with thousands of elements: the time limit only decides
            # how small the reported case gets, never the verdict)
            last_fail["shrinks"] = last_fail.get("shrinks", 0) + 1
            if last_fail["shrinks"] > shrink_budget or time.time() - last_fail["t0"] > shrink_seconds:
                return
        _crash_note(widx, case)
        out, known, jcase = judge(mod, case, open_findings)
        ncases[0] += 1
        if ncases[0] % 100 == 0:
            gc.collect()  # buffers of earlier cases held by reference cycles
        if out.ok or known:
            stats.add(case, out, known)
            return
        if out.sig in excluded:
            stats.excluded_hits += 1
            stats.evals += 1
            return
        stats.evals += 1
        size = len(canon(jcase))
        last_fail.setdefault("t0", time.time())
        if "case" not in last_fail or size <= last_fail["size"]:
            last_fail["case"] = jcase
            last_fail["out"] = out
            last_fail["size"] = size
        raise _Violation(out.sig)

    failure = None
    try:
        prop()
    except BaseException as e:  # _Violation, or hypothesis' Flaky wrapper when the shrink budget cut in
        if "case" not in last_fail or isinstance(e, (KeyboardInterrupt, SystemExit)):
            raise
        out = last_fail["out"]
        failure = {
            "case": last_fail["case"],
            "sig": out.sig,
            "clause": out.clause,
            "detail": out.detail,
        }
    res = stats.dump()
    res["failure"] = failure
    return res


# --------------------------------------------------------------------------
# exhaustive jobs
# --------------------------------------------------------------------------


def _exh_worker(args):
    cid, job = args
    scratch = tempfile.mkdtemp(prefix=f"vf_{cid}_x_")
    os.chdir(scratch)
    _limit_memory()
    try:
        mod = importlib.import_module(f"checks.{cid.lower()}")
        return mod.run_exhaustive_job(job)
    except Exception as e:
        return {"harness_error": f"{type(e).__name__}: {e}\n{traceback.format_exc()}"}
    finally:
        os.chdir("/")
        shutil.rmtree(scratch, ignore_errors=True)


# --------------------------------------------------------------------------
# main
# --------------------------------------------------------------------------


def _triage_crash(cid, crashdir):
    """-> [(signature, replay path)] for cases that kill a fresh interpreter when replayed"""
    out = []
    for fn in sorted(os.listdir(crashdir)):
        if not fn.endswith(".json"):
            continue
        with open(os.path.join(crashdir, fn)) as f:
            case = json.load(f)
        rp = write_replay(cid, case, {"sig": "interpreter_crashed", "clause": "interpreter_crashed", "detail": "the case kills the Python process (signal) when run"})
        r = subprocess.run([sys.executable, "-u", "-m", "vlib.main", cid, "--replay", rp], cwd=HERE, stdout=subprocess.PIPE, stderr=subprocess.STDOUT, text=True, timeout=1800)
        if r.returncode < 0 or r.returncode > 2:
            out.append((f"interpreter_crashed|rc={r.returncode}", rp))
        elif r.returncode == 1:
            out.append(("crash_candidate_fails_on_replay|", rp))
        else:
            os.remove(rp)
    return out


def write_replay(cid, case, meta):
    d = os.path.join(os.environ.get("VERIF_REPLAY_DIR") or os.path.join(HERE, "replays"), cid)
    os.makedirs(d, exist_ok=True)
    path = os.path.join(d, digest(case) + ".json")
    with open(path, "w") as f:
        json.dump({"property": cid, "case": case, "meta": meta}, f, indent=1, default=str)
    return path


def load_case(path):
    with open(path) as f:
        d = json.load(f)
    return d["case"] if isinstance(d, dict) and "case" in d and "property" in d else d


def corpus_cases(cid):
    d = os.path.join(HERE, "corpus", cid)
    out = []
    if os.path.isdir(d):
        for fn in sorted(os.listdir(d)):
            if fn.endswith(".json"):
                out.append((os.path.join(d, fn), load_case(os.path.join(d, fn))))
    return out


def main(argv=None):
    ap = argparse.ArgumentParser()
    ap.add_argument("id")
    ap.add_argument("--tier", default=os.environ.get("VERIF_TIER", "quick"), choices=["quick", "thorough"])
    ap.add_argument("--replay")
    ap.add_argument("--examples", type=int, default=None, help="override per-worker examples")
    ap.add_argument("--no-exhaustive", action="store_true")
    a = ap.parse_args(argv)
    cid = a.id.upper()
    seed = int(os.environ.get("VERIF_SEED", "1") or 1)
    jobs = int(os.environ.get("VERIF_JOBS", "16") or 16)
    t0 = time.time()
    try:
        mod = importlib.import_module(f"checks.{cid.lower()}")
    except Exception:
        traceback.print_exc()
        print(f"HARNESS-ERROR property={cid} cannot import check module")
        return 2
    known = load_known(cid)
    open_findings = [k["id"] for k in known if k["status"] == "open"]

    if a.replay:
        try:
            case = load_case(a.replay)
            out, kid, jcase = judge(mod, case, open_findings)
        except Exception:
            traceback.print_exc()
            return 2
        if out.ok:
            print(f"replay {a.replay}: property holds ({out.clause or 'ok'})")
            return 0
        if kid:
            k = [k for k in known if k["id"] == kid][0]
            print(f"KNOWN-FINDING: property={cid} {k['what']}")
            return 0
        print(f"replay {a.replay}: FAILS clause={out.clause} {out.detail}")
        print(f"VIOLATION property={cid} replay={os.path.abspath(a.replay)}")
        return 1

    tier = a.tier
    bud = mod.budget(tier)
    examples = a.examples or bud["examples"]
    violations = []  # (sig, path)
    seen_sigs = set()
    tot = {"evals": 0, "nontrivial": set(), "labels": {}, "samples": [], "known": {}, "excluded_hits": 0}
    harness_errors = []
    stale_known = []

    def absorb(res):
        tot["evals"] += res["evals"]
        tot["nontrivial"].update(res["nontrivial"])
        for k, v in res["labels"].items():
            tot["labels"][k] = tot["labels"].get(k, 0) + v
        for s in res["samples"]:
            if len(tot["samples"]) < 6:
                tot["samples"].append(s)
        for k, v in res["known"].items():
            tot["known"][k] = tot["known"].get(k, 0) + v
        tot["excluded_hits"] += res.get("excluded_hits", 0)

    # ---- 1. corpus replay (regressions of fixed defects, repo-test seeds) and
    #         examples of open findings (must still fail, else stale)
    scratch = tempfile.mkdtemp(prefix=f"vf_{cid}_main_")
    cwd0 = os.getcwd()
    os.chdir(scratch)
    corpus_n = 0
    try:
        for path, case in corpus_cases(cid):
            corpus_n += 1
            out, kid, jcase = judge(mod, case, open_findings)
            tot["evals"] += 1
            if kid:
                tot["known"][kid] = tot["known"].get(kid, 0) + 1
            if not out.ok and not kid and out.sig not in seen_sigs:
                seen_sigs.add(out.sig)
                rp = write_replay(cid, jcase, {"sig": out.sig, "clause": out.clause, "detail": out.detail, "from": path})
                violations.append((out.sig, rp))
        for k in known:
            if k["status"] == "open" and k.get("example"):
                ex = load_case(os.path.join(HERE, k["example"]))
                out = run_case_guarded(mod, ex)
                tot["evals"] += 1
                if out.ok:
                    stale_known.append(k["id"])
                else:
                    o2, kid, _ = judge(mod, ex, open_findings)
                    if kid:
                        tot["known"][kid] = tot["known"].get(kid, 0) + 1
    except Exception:
        traceback.print_exc()
        print(f"HARNESS-ERROR property={cid} during corpus replay")
        return 2
    finally:
        os.chdir(cwd0)
        shutil.rmtree(scratch, ignore_errors=True)

    ctx = mp.get_context("fork")
    exh_info = None
    crashdir = tempfile.mkdtemp(prefix=f"vfcrash_{cid}_")
    os.environ["VERIF_CRASHDIR"] = crashdir
    try:
        with cf.ProcessPoolExecutor(max_workers=jobs, mp_context=ctx) as pool:
            # ---- 2. exhaustive small-scope sweep
            if hasattr(mod, "exhaustive_jobs") and not a.no_exhaustive:
                ejobs = mod.exhaustive_jobs(tier)
                exh_info = {"jobs": len(ejobs), "cases": 0, "nontrivial": 0, "scope": getattr(mod, "EXHAUSTIVE_SCOPE", {}).get(tier, "")}
                for res in _guarded_map(pool, _exh_worker, [(cid, j) for j in ejobs], tier):
                    if "harness_error" in res:
                        harness_errors.append(res["harness_error"])
                        continue
                    exh_info["cases"] += res["cases"]
                    exh_info["nontrivial"] += res["nontrivial"]
                    for k, v in res.get("labels", {}).items():
                        tot["labels"]["exh:" + k] = tot["labels"].get("exh:" + k, 0) + v
                    for k, v in res.get("known", {}).items():
                        tot["known"][k] = tot["known"].get(k, 0) + v
                    for fl in res.get("failures", []):
                        if fl["sig"] not in seen_sigs:
                            seen_sigs.add(fl["sig"])
                            rp = write_replay(cid, fl["case"], {k: fl[k] for k in ("sig", "clause", "detail")})
                            violations.append((fl["sig"], rp))
                    if res.get("sample") is not None and len(tot["samples"]) < 2:
                        tot["samples"].append(trim(res["sample"]))
            # ---- 3. generated search, continued past each new root cause
            for rnd in range(MAX_ROUNDS):
                ex = examples if rnd == 0 else max(20, examples // 2)
                args = [(cid, tier, seed, w, rnd, sorted(seen_sigs), ex) for w in range(jobs)]
                new = 0
                for res in _guarded_map(pool, _worker, args, tier):
                    if "harness_error" in res:
                        harness_errors.append(res["harness_error"])
                        continue
                    absorb(res)
                    fl = res["failure"]
                    if fl and fl["sig"] not in seen_sigs:
                        seen_sigs.add(fl["sig"])
                        rp = write_replay(cid, fl["case"], {k: fl[k] for k in ("sig", "clause", "detail")})
                        violations.append((fl["sig"], rp))
                        new += 1
                if new == 0 or harness_errors:
                    break


    except cf.TimeoutError:
        # a stage did not finish within its wall-clock ceiling (a worker hangs, e.g. inside a corrupted allocator):
        # inconclusive, never a violation - the workers are killed and the check ends with exit 2
        harness_errors.append(f"a stage exceeded its wall-clock ceiling of {_stage_timeout(tier)} s (VERIF_STAGE_TIMEOUT): inconclusive")
    except BrokenProcessPool:
        # a worker was killed: find the case(s) being run, confirm each in a fresh process
        crashed = _triage_crash(cid, crashdir)
        for sig, rp in crashed:
            if sig not in seen_sigs:
                seen_sigs.add(sig)
                violations.append((sig, rp))
        if not crashed:
            harness_errors.append("a worker process died and no crashing case could be confirmed")
    finally:
        shutil.rmtree(crashdir, ignore_errors=True)

    wall = time.time() - t0
    if harness_errors:
        print(harness_errors[0])
        print(f"HARNESS-ERROR property={cid} ({len(harness_errors)} worker errors)")
        return 2

    # ---- generator health
    health = []
    if hasattr(mod, "essential_labels"):
        for lb in mod.essential_labels(tier):
            if tot["labels"].get(lb, 0) == 0:
                health.append(lb)

    nontriv = len(tot["nontrivial"]) + (exh_info["nontrivial"] if exh_info else 0)
    evals = tot["evals"] + (exh_info["cases"] if exh_info else 0)
    coverage = {
        "evaluations": evals,
        "distinct_nontrivial": nontriv,
        "rule": mod.RULE,
        "samples": tot["samples"],
        "label_histogram": dict(sorted(tot["labels"].items())),
        "generated_cases": tot["evals"] - corpus_n,
        "corpus_cases_replayed": corpus_n,
        "excluded_known": tot["known"],
        "workers": jobs,
        "examples_per_worker": examples,
        "stale_known_findings": stale_known,
    }
    if exh_info:
        coverage["exhaustive"] = True
        coverage["exhaustive_scope"] = exh_info
    ev = {
        "property_id": cid,
        "tier": tier,
        "seed": seed,
        "level": getattr(mod, "LEVEL", "exploration"),
        "coverage": coverage,
        "assumptions": list(getattr(mod, "ASSUMPTIONS", [])),
        "wall_s": round(wall, 2),
        "violations": len(violations),
    }
    evdir = os.environ.get("VERIF_EVIDENCE_DIR") or os.path.join(HERE, "evidence")  # overridden only by tools/mutcheck.sh
    os.makedirs(evdir, exist_ok=True)
    with open(os.path.join(evdir, f"{cid}.json"), "w") as f:
        json.dump(ev, f, indent=1, default=str)

    for k in known:
        if k["status"] == "open" and k["id"] not in stale_known:
            print(f"KNOWN-FINDING: property={cid} {k['what']} [{k['id']}: {tot['known'].get(k['id'], 0)} generated cases attributed]")
    for sid in stale_known:
        print(f"note: known finding {sid} no longer reproduces (stale entry)")
    print(
        f"{cid} {tier}: {evals} cases, {nontriv} distinct non-trivial, "
        f"{len(violations)} violation(s), {wall:.1f}s"
    )
    if violations:
        for sig, rp in violations:
            print(f"  root cause: {sig}")
            print(f"VIOLATION property={cid} replay={rp}")
        return 1
    if health and not a.examples:
        print(f"HARNESS-ERROR property={cid} generator health: essential classes empty: {health}")
        return 2
    return 0


if __name__ == "__main__":
    sys.exit(main())
