"""Materialise TypeSpecs as real xobjects classes, build constructor arguments in
every accepted input form, and read objects back through the public API."""

import math

import numpy as np

from . import typegen as tg


class Node:
    __slots__ = ("spec", "cls", "kids")

    def __init__(self, spec, cls, kids):
        self.spec = spec
        self.cls = cls
        self.kids = kids


def materialise(spec, registry=None, module=None, via_hybrid=False):
    """-> Node tree.  `registry` maps class name -> class for reuse of equal names
    (equal names inside one tree mean equal structure, guaranteed by typegen).
    via_hybrid: struct classes are the _XoStruct of a HybridClass declared with the same fields in the same order
    (a struct field is then declared with the nested HybridClass, as users write it)."""
    import xobjects as xo

    if via_hybrid:
        return _materialise_via_hybrid(spec, {})
    if registry is None:
        registry = {}
    k = spec["k"]
    if k == "scalar":
        return Node(spec, getattr(xo, spec["t"]), [])
    if k == "string":
        return Node(spec, xo.String, [])
    if k == "struct":
        kids = [materialise(t, registry, module) for _, t in spec["fields"]]
        data = {fn: _field_decl(ft, kid) for (fn, ft), kid in zip(spec["fields"], kids)}
        if module:
            data["__module__"] = module
            data["__qualname__"] = spec["name"]
        cls = type(spec["name"], (xo.Struct,), data)
        registry[spec["name"]] = cls
        return Node(spec, cls, kids)
    if k == "array":
        item = materialise(spec["item"], registry, module)
        nd = len(spec["shape"])
        if list(spec["order"]) == list(range(nd)):
            shp = tuple(spec["shape"])
        else:
            shp = tuple(slice(d, o) for d, o in zip(spec["shape"], spec["order"]))
        cls = item.cls[shp]
        if spec.get("name"):
            data = {}
            if module:
                data["__module__"] = module
                data["__qualname__"] = spec["name"]
            cls = type(spec["name"], (cls,), data)
        elif module:
            cls.__module__ = module
            cls.__qualname__ = cls.__name__
        registry[cls.__name__] = cls
        return Node(spec, cls, [item])
    if k == "ref":
        to = materialise(spec["to"], registry, module)
        return Node(spec, xo.Ref[to.cls], [to])
    if k == "unionref":
        kids = [materialise(t, registry, module) for t in spec["members"]]
        data = {"_reftypes": [kid.cls for kid in kids]}
        if spec.get("meth"):
            # a method of the union, dispatched on the member (meth == 1: no extra argument, 2: one); every member class
            # brings its implementation in its own extra sources
            un = spec["name"]
            margs = [] if spec["meth"] == 1 else [xo.Arg(xo.Float64, name="s")]
            data["_methods"] = [xo.Method(c_name=f"vf_{un}", args=margs, ret=xo.Arg(xo.Float64))]
            for kid in kids:
                mn_ = kid.cls.__name__
                kid.cls._extra_c_sources = list(getattr(kid.cls, "_extra_c_sources", [])) + [
                    f"/*gpufun*/ double {mn_}_vf_{un}({mn_} obj{', double s' if margs else ''}){{ (void) obj; return 1.0; }}"]
        if module:
            data["__module__"] = module
            data["__qualname__"] = spec["name"]
        cls = type(spec["name"], (xo.UnionRef,), data)
        registry[spec["name"]] = cls
        return Node(spec, cls, kids)
    raise ValueError(k)


def _field_decl(ft, kid):
    """what is written in the class body for a field: the type, or xo.Field(type, default=...) for a declared default"""
    if ft["k"] == "ref" and "default" in ft:
        import xobjects as xo

        dflt = build_arg(kid.kids[0], ft["default"], Forms([0]), Env(None, None))
        if isinstance(dflt, dict):
            dflt = (dflt,)  # a dict default would be unpacked into keyword arguments: one positional argument instead
        return xo.Field(kid.cls, default=dflt)
    return kid.cls


def _materialise_via_hybrid(spec, hyb):
    import xobjects as xo

    k = spec["k"]
    if k == "struct":
        kids = [_materialise_via_hybrid(t, hyb) for _, t in spec["fields"]]
        fields = {}
        for (fn, ft), kid in zip(spec["fields"], kids):
            fields[fn] = hyb.get(id(kid.cls), None) or _field_decl(ft, kid)  # a nested hybrid struct is declared by its HybridClass
        H = type(spec["name"], (xo.HybridClass,), {"_xofields": fields})
        hyb[id(H._XoStruct)] = H
        return Node(spec, H._XoStruct, kids)
    if k in ("scalar", "string"):
        return materialise(spec)
    if k == "array":
        item = _materialise_via_hybrid(spec["item"], hyb)
        nd = len(spec["shape"])
        shp = tuple(spec["shape"]) if list(spec["order"]) == list(range(nd)) else tuple(slice(d, o) for d, o in zip(spec["shape"], spec["order"]))
        cls = item.cls[shp]
        if spec.get("name"):
            cls = type(spec["name"], (cls,), {})
        return Node(spec, cls, [item])
    if k == "ref":
        to = _materialise_via_hybrid(spec["to"], hyb)
        return Node(spec, xo.Ref[to.cls], [to])
    kids = [_materialise_via_hybrid(t, hyb) for t in spec["members"]]
    return Node(spec, type(spec["name"], (xo.UnionRef,), {"_reftypes": [kid.cls for kid in kids]}), kids)


# --------------------------------------------------------------------------
# input forms
# --------------------------------------------------------------------------


class Forms:
    """sequence of small ints consumed in construction order; 0 = plainest form"""

    def __init__(self, lst):
        self.l = list(lst) if lst else [0]
        self.i = 0
        self.used = set()

    def next(self, n, tag=""):
        v = self.l[self.i % len(self.l)] % n
        self.i += 1
        return v


class Env:
    """where helper objects (xobject-form inputs) are created"""

    def __init__(self, target_buffer=None, ctx=None):
        import xobjects as xo

        self.target = target_buffer
        self.ctx = ctx or (target_buffer.context if target_buffer is not None else xo.context_default)
        self.other = None
        self.foreign = False  # True: xobject-form inputs live in a buffer of ANOTHER context
        self.forms_used = set()

    def other_buffer(self):
        """a second buffer of the same context and of the same kind as the target
        (a context only ever hands out one kind of buffer)"""
        if self.other is None:
            if self.foreign:
                import xobjects as xo

                octx = xo.ContextCpu()
                self.other = type(self.target)(capacity=64, context=octx) if self.target is not None else octx.new_buffer(64)
                self.forms_used.add("xobject_inputs_from_another_context")
            elif self.target is not None:
                self.other = type(self.target)(capacity=64, context=self.ctx)
            else:
                self.other = self.ctx.new_buffer(64)
        return self.other


NP_DTYPES = {t: t.lower() for t in tg.SCALARS}


def _exact_in(dtype, vals):
    try:
        arr = np.array(vals, dtype=object)
        for v in arr.ravel():
            if isinstance(v, float):
                if np.dtype(dtype).kind != "f":
                    return False
                if v == v and float(np.dtype(dtype).type(v)) != v:
                    return False
            else:
                if np.dtype(dtype).kind == "f":
                    if int(np.dtype(dtype).type(v)) != v:
                        return False
                else:
                    info = np.iinfo(dtype)
                    if not (info.min <= v <= info.max):
                        return False
        return True
    except Exception:
        return False


def build_arg(node, value, forms, env, allow_special=True):
    """python object accepted by the library as initial value for `node`"""
    spec = node.spec
    k = spec["k"]
    if k == "scalar":
        f = forms.next(2)
        if f == 1:
            env.forms_used.add("scalar_numpy")
            return np.dtype(NP_DTYPES[spec["t"]]).type(value)
        return value
    if k == "string":
        if isinstance(value, dict) and "$cap" in value:
            env.forms_used.add("string_capacity")
            return int(value["$cap"])
        f = forms.next(4)
        if f == 2:
            env.forms_used.add("string_xobject")
            return node.cls(value, _buffer=env.other_buffer())
        if f == 3 and value == "":
            # an (empty) String object that carries spare capacity: the only String objects with spare capacity the
            # public API can make are those created by size
            env.forms_used.add("string_xobject_with_spare_capacity")
            return node.cls(8 * (1 + forms.next(4)) + forms.next(8), _buffer=env.other_buffer())
        return value
    if k == "struct":
        f = forms.next(4)
        d = {}
        for (fn, _), kid in zip(spec["fields"], node.kids):
            if isinstance(value[fn], dict) and "$omit" in value[fn]:
                env.forms_used.add("field_omitted")
                continue
            d[fn] = build_arg(kid, value[fn], forms, env)
        if f == 2:
            env.forms_used.add("struct_xobject_other_buffer")
            return node.cls(d, _buffer=env.other_buffer())
        if f == 3 and env.target is not None:
            env.forms_used.add("struct_xobject_same_buffer")
            return node.cls(d, _buffer=env.target)
        return d
    if k == "array":
        if isinstance(value, dict) and "$dims" in value:
            env.forms_used.add("array_dims")
            dims = value["$dims"]
            if len(dims) == 0:
                return None  # static array, default construction handled by caller
            return dims[0] if len(dims) == 1 else tuple(dims)
        return _build_array_arg(node, value, forms, env)
    if k == "ref":
        if value is None:
            return None
        f = forms.next(4)
        to = node.kids[0]
        if f == 2 and env.target is not None:
            env.forms_used.add("ref_xobject_same_buffer")
            inner = build_arg(to, value, forms, env)
            return to.cls(inner, _buffer=env.target)
        if f == 3:
            env.forms_used.add("ref_xobject_other_buffer")
            inner = build_arg(to, value, forms, env)
            return to.cls(inner, _buffer=env.other_buffer())
        return build_arg(to, value, forms, env)
    if k == "unionref":
        if value is None:
            return None
        mi, mv = value
        m = node.kids[mi]
        f = forms.next(4)
        inner = build_arg(m, mv, forms, env)
        if f == 2 and env.target is not None:
            env.forms_used.add("union_xobject_same_buffer")
            return m.cls(inner, _buffer=env.target)
        if f == 3:
            env.forms_used.add("union_xobject_other_buffer")
            return m.cls(inner, _buffer=env.other_buffer())
        env.forms_used.add("union_tuple")
        return (m.cls.__name__, inner)
    raise ValueError(k)


def _build_array_arg(node, value, forms, env):
    spec = node.spec
    item = node.kids[0]
    shape = value["shape"]
    f = forms.next(6)
    if spec["item"]["k"] == "scalar":
        dt = NP_DTYPES[spec["item"]["t"]]
        flat = value["flat"]
        if f in (1, 2, 3, 4) or not tg.nested_expressible(shape):
            base = np.array(flat, dtype=dt).reshape(shape) if len(flat) else np.zeros(shape, dtype=dt)
            if f == 2:
                env.forms_used.add("ndarray_F_order")
                return np.asfortranarray(base)
            if f == 3 and base.ndim >= 1:
                env.forms_used.add("ndarray_strided")
                big = np.zeros([2 * s for s in shape], dtype=dt)
                sl = tuple(slice(0, 2 * s, 2) for s in shape)
                big[sl] = base
                return big[sl]
            if f == 1 and base.dtype.itemsize > 1 and forms.next(3) == 0:
                env.forms_used.add("ndarray_byteswapped")
                return base.astype(base.dtype.newbyteorder())  # same values, non-native byte order
            if f == 4:
                # other dtype that converts exactly
                for alt in ("float64", "int64", "int16", "uint8"):
                    if alt != dt and _exact_in(alt, flat) and not any(isinstance(v, float) and v != v for v in flat):
                        env.forms_used.add("ndarray_other_dtype")
                        return np.array(flat, dtype=alt).reshape(shape) if len(flat) else np.zeros(shape, dtype=alt)
            env.forms_used.add("ndarray_C")
            return base
        if f == 5:
            base = np.array(flat, dtype=dt).reshape(shape)
            nd_ = len(shape)
            if nd_ >= 2 and len(flat) and forms.next(2) == 1:
                # an xobject array of ANOTHER class: same item type and shape, another axis order
                import xobjects as xo

                oo = list(reversed(spec["order"])) if list(reversed(spec["order"])) != list(spec["order"]) else list(spec["order"][1:]) + list(spec["order"][:1])
                shp = tuple(slice(d, o) for d, o in zip(spec["shape"], oo))
                twin = getattr(xo, spec["item"]["t"])[shp]
                env.forms_used.add("array_xobject_other_axis_order")
                return twin(base, _buffer=env.other_buffer())
            env.forms_used.add("array_xobject")
            return node.cls(base, _buffer=env.other_buffer())
        env.forms_used.add("array_list")
        return tg.to_nested(value)
    # compound / string items
    items = [build_arg(item, v, forms, env) for v in value["flat"]]
    if f in (1, 2) or not tg.nested_expressible(shape):
        env.forms_used.add("ndarray_object")
        arr = np.empty(shape, dtype=object)
        for idx, it in zip(tg.indices(shape), items):
            arr[idx] = it
        return arr
    if f == 5:
        env.forms_used.add("array_xobject")
        arr = np.empty(shape, dtype=object)
        for idx, it in zip(tg.indices(shape), items):
            arr[idx] = it
        return node.cls(arr, _buffer=env.other_buffer())
    env.forms_used.add("array_list")
    return tg.to_nested({"shape": shape, "flat": items})


def construct(node, value, forms, env, **placement_kw):
    """root construction; returns the handle"""
    spec = node.spec
    k = spec["k"]
    if k == "struct":
        f = forms.next(2)
        arg = build_arg(node, value, forms, env)
        if f == 1 and isinstance(arg, dict):
            env.forms_used.add("struct_kwargs")
            return node.cls(**arg, **placement_kw)
        return node.cls(arg, **placement_kw)
    if k == "unionref":
        arg = build_arg(node, value, forms, env)
        if arg is None:
            if forms.next(2) == 1:
                return node.cls(**placement_kw)
            return node.cls(None, **placement_kw)
        if isinstance(arg, tuple):
            return node.cls(*arg, **placement_kw)
        return node.cls(arg, **placement_kw)
    if k == "array":
        arg = build_arg(node, value, forms, env)
        if isinstance(value, dict) and "$dims" in value:
            if arg is None:
                return node.cls(**placement_kw)
            if isinstance(arg, tuple):
                return node.cls(*arg, **placement_kw)
        return node.cls(arg, **placement_kw)
    arg = build_arg(node, value, forms, env)
    return node.cls(arg, **placement_kw)


# --------------------------------------------------------------------------
# reading back through the public API
# --------------------------------------------------------------------------


def pyscalar(spec, v):
    if spec["t"].startswith("Float"):
        return float(v)
    return int(v)


def walk(obj, node):
    spec = node.spec
    k = spec["k"]
    if k == "scalar":
        return pyscalar(spec, obj)
    if k == "string":
        if not isinstance(obj, str):
            obj = obj.to_str()
        return obj
    if k == "struct":
        return {fn: walk(getattr(obj, fn), kid) for (fn, _), kid in zip(spec["fields"], node.kids)}
    if k == "array":
        shape = [int(x) for x in obj._shape]
        item = node.kids[0]
        flat = []
        one_d = len(shape) == 1
        for idx in tg.indices(shape):
            it = obj[idx[0]] if one_d else obj[idx]
            flat.append(walk(it, item))
        return {"shape": shape, "flat": flat}
    if k == "ref":
        if obj is None:
            return None
        return walk(obj, node.kids[0])
    if k == "unionref":
        if obj is None:
            return None
        if isinstance(obj, node.cls):  # stand-alone union object
            tgt = obj.get()
            if tgt is None:
                return None
            obj = tgt
        nm = type(obj).__name__
        for i, m in enumerate(node.kids):
            if m.cls.__name__ == nm:
                return [i, walk(obj, m)]
        return [-99, f"object of non-member class {nm}"]
    raise ValueError(k)


def expected_value(spec, value):
    """what must be read back for an input value (capacity / dims forms differ)"""
    k = spec["k"]
    if k == "string":
        if isinstance(value, dict) and "$cap" in value:
            return ""
        return value
    if k == "scalar":
        if isinstance(value, dict) and "$omit" in value:
            return 0.0 if spec["t"].startswith("Float") else 0
        return value
    if k == "struct":
        return {fn: expected_value(ft, value[fn]) for fn, ft in spec["fields"]}
    if k == "array":
        if isinstance(value, dict) and "$dims" in value:
            dims = list(value["$dims"])
            shape = [dims.pop(0) if d is None else d for d in spec["shape"]]
            n = math.prod(shape)
            return {"shape": shape, "flat": [default_value(spec["item"]) for _ in range(n)]}
        return {"shape": value["shape"], "flat": [expected_value(spec["item"], v) for v in value["flat"]]}
    if k == "ref":
        if isinstance(value, dict) and "$omit" in value:
            return expected_value(spec["to"], spec["default"])
        return None if value is None else expected_value(spec["to"], value)
    if k == "unionref":
        return None if value is None else [value[0], expected_value(spec["members"][value[0]], value[1])]
    raise ValueError(k)


ANY = {"$any": 1}


def default_value(spec, top=True):
    """value of a default-constructed static item (scalars directly in an array are unconstrained)"""
    k = spec["k"]
    if k == "scalar":
        return ANY if top else 0
    if k == "struct":
        return {fn: default_value(ft, False) for fn, ft in spec["fields"]}
    if k == "array":
        n = math.prod(spec["shape"])
        return {"shape": list(spec["shape"]), "flat": [ANY if spec["item"]["k"] == "scalar" else default_value(spec["item"], False) for _ in range(n)]}
    if k == "ref" and "default" in spec:
        return expected_value(spec["to"], spec["default"])
    if k in ("ref", "unionref"):
        return None
    raise ValueError(k)


# --------------------------------------------------------------------------
# paths: navigation shared by object and model
# --------------------------------------------------------------------------
# step = ["f", name] | ["i", [i0, i1..]] | ["d"]  (dereference of a ref / union member; implicit on objects)


def leaf_paths(spec, value, prefix=None, out=None, through_refs=True):
    """paths to every scalar / string leaf that exists in `value`"""
    if out is None:
        out = []
    prefix = prefix or []
    k = spec["k"]
    if k in ("scalar", "string"):
        out.append((prefix, spec))
    elif k == "struct":
        for fn, ft in spec["fields"]:
            leaf_paths(ft, value[fn], prefix + [["f", fn]], out, through_refs)
    elif k == "array":
        for idx, v in zip(tg.indices(value["shape"]), value["flat"]):
            leaf_paths(spec["item"], v, prefix + [["i", list(idx)]], out, through_refs)
    elif k == "ref":
        if value is not None and through_refs:
            leaf_paths(spec["to"], value, prefix + [["d"]], out, through_refs)
    elif k == "unionref":
        if value is not None and through_refs:
            leaf_paths(spec["members"][value[0]], value[1], prefix + [["d"]], out, through_refs)
    return out


def compound_paths(spec, value, prefix=None, out=None):
    """paths to every struct / array / (non-null) reference target, root included"""
    if out is None:
        out = []
    prefix = prefix or []
    k = spec["k"]
    if k == "struct":
        out.append((prefix, spec))
        for fn, ft in spec["fields"]:
            compound_paths(ft, value[fn], prefix + [["f", fn]], out)
    elif k == "array":
        out.append((prefix, spec))
        if spec["item"]["k"] not in ("scalar", "string"):
            for idx, v in zip(tg.indices(value["shape"]), value["flat"]):
                compound_paths(spec["item"], v, prefix + [["i", list(idx)]], out)
    elif k == "ref":
        if value is not None:
            compound_paths(spec["to"], value, prefix + [["d"]], out)
    elif k == "unionref":
        if value is not None:
            compound_paths(spec["members"][value[0]], value[1], prefix + [["d"]], out)
    return out


def model_get(spec, value, path):
    for st in path:
        k = spec["k"]
        if st[0] == "f":
            value = value[st[1]]
            spec = dict((a, b) for a, b in spec["fields"])[st[1]]
        elif st[0] == "i":
            value = value["flat"][tg.flat_index(st[1], value["shape"])]
            spec = spec["item"]
        else:
            if k == "ref":
                spec = spec["to"]
            else:
                spec = spec["members"][value[0]]
                value = value[1]
    return spec, value


def model_set(spec, value, path, new):
    """in-place update of the model value"""
    if not path:
        raise ValueError("cannot replace the root")
    pspec, parent = model_get(spec, value, path[:-1])
    st = path[-1]
    if st[0] == "f":
        parent[st[1]] = new
    elif st[0] == "i":
        parent["flat"][tg.flat_index(st[1], parent["shape"])] = new
    else:
        raise ValueError("path must end in a field or index")


def _kid(node, st, obj=None):
    spec = node.spec
    if st[0] == "f":
        for (fn, _), kid in zip(spec["fields"], node.kids):
            if fn == st[1]:
                return kid
        raise KeyError(st[1])
    if st[0] == "i":
        return node.kids[0]
    if spec["k"] == "ref":
        return node.kids[0]
    nm = type(obj).__name__
    for m in node.kids:
        if m.cls.__name__ == nm:
            return m
    raise KeyError(nm)


NEG_INDEX = False  # when set, items of arrays of dynamically sized items are addressed from the end (supported there)


def _ix(obj, node, idx):
    if NEG_INDEX and node.spec["k"] == "array" and tg.is_dynamic(node.spec["item"]):
        return [int(i) - int(n) for i, n in zip(idx, obj._shape)]
    return idx


def obj_get(obj, node, path):
    """follow `path` through the public accessors -> (object or python value, node)"""
    for st in path:
        if st[0] == "f":
            obj = getattr(obj, st[1])
            node = _kid(node, st)
        elif st[0] == "i":
            idx = _ix(obj, node, st[1])
            obj = obj[idx[0]] if len(idx) == 1 else obj[tuple(idx)]
            node = _kid(node, st)
        else:
            if node.spec["k"] == "unionref" and isinstance(obj, node.cls):
                obj = obj.get()
            node = _kid(node, st, obj)
    return obj, node


def obj_set(obj, node, path, pyvalue):
    parent, pnode = obj_get(obj, node, path[:-1])
    st = path[-1]
    if st[0] == "f":
        setattr(parent, st[1], pyvalue)
    elif st[0] == "i":
        idx = _ix(parent, pnode, st[1])
        if len(idx) == 1:
            parent[idx[0]] = pyvalue
        else:
            parent[tuple(idx)] = pyvalue
    else:
        raise ValueError("path must end in a field or index")


def view_of(x):
    """a view rebuilt from nothing but buffer and offset"""
    return type(x)._from_buffer(x._buffer, x._offset)


def ref_slots(spec, value, prefix=None, out=None):
    """paths to every position typed Ref / UnionRef (null or not), not through the root"""
    if out is None:
        out = []
    prefix = prefix or []
    k = spec["k"]
    if k == "struct":
        for fn, ft in spec["fields"]:
            p = prefix + [["f", fn]]
            if ft["k"] in ("ref", "unionref"):
                out.append((p, ft))
            ref_slots(ft, value[fn], p, out)
    elif k == "array":
        for idx, v in zip(tg.indices(value["shape"]), value["flat"]):
            p = prefix + [["i", list(idx)]]
            if spec["item"]["k"] in ("ref", "unionref"):
                out.append((p, spec["item"]))
            ref_slots(spec["item"], v, p, out)
    elif k == "ref":
        if value is not None:
            ref_slots(spec["to"], value, prefix + [["d"]], out)
    elif k == "unionref":
        if value is not None:
            ref_slots(spec["members"][value[0]], value[1], prefix + [["d"]], out)
    return out


def map_scalars(spec, value, fn, strings=False):
    """copy of `value` with every scalar (and optionally string) leaf v replaced by fn(leafspec, v); structure kept"""
    k = spec["k"]
    if k == "scalar":
        return fn(spec, value)
    if k == "string":
        return fn(spec, value) if strings else value
    if k == "struct":
        return {f: map_scalars(t, value[f], fn, strings) for f, t in spec["fields"]}
    if k == "array":
        return {"shape": list(value["shape"]), "flat": [map_scalars(spec["item"], v, fn, strings) for v in value["flat"]]}
    if k == "ref":
        return None if value is None else map_scalars(spec["to"], value, fn, strings)
    if k == "unionref":
        return None if value is None else [value[0], map_scalars(spec["members"][value[0]], value[1], fn, strings)]
    raise ValueError(k)


def node_at(node, value, path):
    """Node reached by a model path (union members resolved through the model value)"""
    spec = node.spec
    for st in path:
        if st[0] == "f":
            node = _kid(node, st)
            value = value[st[1]]
        elif st[0] == "i":
            value = value["flat"][tg.flat_index(st[1], value["shape"])]
            node = node.kids[0]
        else:
            if node.spec["k"] == "ref":
                node = node.kids[0]
            else:
                node = node.kids[value[0]]
                value = value[1]
    return node, value
