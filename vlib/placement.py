"""Placements: where an object is built (context, buffer kind, capacity, alignment,
grow step, allocation pre-history with poisoned memory, offset mode), and the
allocation tracer (harness-side wrappers on the buffer *instance*)."""

from hypothesis import strategies as st

POISON = 0x5A


@st.composite
def placements(draw, rich=True):
    buf = draw(st.sampled_from(["none", "numpy", "numpy", "numpy", "bytearray"]))
    p = {
        "ctx": draw(st.sampled_from(["default", "fresh", "fresh", "omp"])),
        "buf": buf,
        "cap": draw(st.one_of(st.sampled_from([0, 8, 64, 4096, "exact", "exact+8"]), st.integers(0, 64), st.integers(0, 512))),
        "align": draw(st.sampled_from([1, 1, 2, 4, 8, 8, 16, 32, 64])),
        "grow_step": draw(st.one_of(st.none(), st.integers(1, 256))),
        "pre": draw(st.lists(st.one_of(st.tuples(st.just("a"), st.integers(0, 40), st.booleans()), st.tuples(st.just("f"), st.integers(0, 7))).map(list), max_size=6)) if rich else [],
        "offset": draw(st.sampled_from([None, None, "aligned", "packed", "explicit"])),
        "slack": draw(st.integers(0, 3)) * 8,
    }
    if buf == "none":
        p["offset"] = None
    if buf == "bytearray" and p["ctx"] == "default":
        # a context hands out one kind of buffer; the default context's are BufferNumpy
        p["ctx"] = "fresh"
    return p


DEFAULT_PLACEMENT = {"ctx": "default", "buf": "none", "cap": 0, "align": 1, "grow_step": None, "pre": [], "offset": None, "slack": 0}


def is_default(p):
    return p["buf"] == "none"


def make_context(p):
    import xobjects as xo

    if p["ctx"] == "default":
        return xo.context_default
    if p["ctx"] == "omp":
        return xo.ContextCpu(omp_num_threads=2)
    return xo.ContextCpu()


def poison_fill(buf, lo=0, hi=None):
    import numpy as np

    hi = buf.capacity if hi is None else hi
    if hi <= lo:
        return
    if isinstance(buf.buffer, bytearray):
        buf.buffer[lo:hi] = bytes([POISON]) * (hi - lo)
    else:
        buf.buffer[lo:hi] = POISON


class Tracer:
    """logs allocate/free/grow on one buffer instance; new storage is poisoned"""

    def __init__(self, buf, poison=True):
        self.buf = buf
        self.log = []
        self.live = []  # [off, size] regions handed out and not freed
        self.marks = 0
        orig_alloc, orig_free, orig_new = buf.allocate, buf.free, buf._new_buffer

        def allocate(size, align=True):
            # the allocator re-enters allocate() after growing: log the outermost call only
            self._depth += 1
            try:
                off = orig_alloc(size, align=align)
            finally:
                self._depth -= 1
            if self._depth == 0:
                self.log.append(("a", int(off), int(size)))
                self.live.append([int(off), int(size)])
            return off

        def free(offset, size):
            orig_free(offset, size)
            self.log.append(("f", int(offset), int(size)))
            if [offset, size] in self.live:
                self.live.remove([offset, size])

        def _new_buffer(capacity):
            nb = orig_new(capacity)
            if poison and capacity > 0:
                if isinstance(nb, bytearray):
                    nb[:] = bytes([POISON]) * capacity
                else:
                    nb[:] = POISON
            return nb

        self._depth = 0
        buf.allocate = allocate
        buf.free = free
        buf._new_buffer = _new_buffer

    def mark(self):
        return len(self.log)

    def allocated_since(self, mark):
        return [(o, s) for op, o, s in self.log[mark:] if op == "a"]


def make_buffer(p, ctx, size_hint=0):
    """-> (buffer or None, tracer or None)"""
    from xobjects.context_cpu import BufferNumpy, BufferByteArray

    if p["buf"] == "none":
        return None, None
    cap = p["cap"]
    if cap == "exact":
        cap = size_hint
    elif cap == "exact+8":
        cap = size_hint + 8
    cls = BufferNumpy if p["buf"] == "numpy" else BufferByteArray
    buf = cls(capacity=cap, context=ctx, default_alignment=p["align"], grow_step=p["grow_step"])
    poison_fill(buf)
    tr = Tracer(buf)
    live = []
    for op in p["pre"]:
        if op[0] == "a":
            off = buf.allocate(op[1], op[2])
            live.append((off, op[1]))
        elif live:
            off, size = live.pop(op[1] % len(live))
            buf.free(off, size)
            poison_fill(buf, off, off + size)
    return buf, tr


def snapshot(buf):
    return bytes(buf.to_bytearray(0, buf.capacity))


def diff_positions(a, b):
    n = min(len(a), len(b))
    out = [i for i in range(n) if a[i] != b[i]]
    return out
