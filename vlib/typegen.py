"""Type-expression (TypeSpec) and value generators shared by the type-grammar checks.

TypeSpec (JSON):
  {"k":"scalar","t":"Int64"}
  {"k":"string"}
  {"k":"struct","name":"S3","fields":[["f0",T],...]}
  {"k":"array","name":None|"A5","item":T,"shape":[3,None,2],"order":[0,2,1]}
  {"k":"ref","to":T}                      T struct or array; as a struct field optionally "default": v (a model value of
                                          T: the field is declared xo.Field(Ref[T], default=<data>); an omitted field
                                          and every item of an array created by length get a referent of their own)
  {"k":"unionref","name":"U2","members":[T,...]}   members struct or array, distinct names

Model values (JSON):
  scalar -> int | float         string -> str
  struct -> {"f0": v, ...}      array  -> {"shape":[...], "flat":[v...]}  (flat in index/C order)
  ref    -> None | v            unionref -> None | [member_index, v]
"""

import copy
import itertools
import math

from hypothesis import strategies as st

SCALARS = ["Float64", "Float32", "Int64", "UInt64", "Int32", "UInt32", "Int16", "UInt16", "Int8", "UInt8"]
SCALAR_SIZE = {"Float64": 8, "Float32": 4, "Int64": 8, "UInt64": 8, "Int32": 4, "UInt32": 4, "Int16": 2, "UInt16": 2, "Int8": 1, "UInt8": 1}
INT_RANGE = {
    "Int64": (-(2**63), 2**63 - 1),
    "UInt64": (0, 2**64 - 1),
    "Int32": (-(2**31), 2**31 - 1),
    "UInt32": (0, 2**32 - 1),
    "Int16": (-(2**15), 2**15 - 1),
    "UInt16": (0, 2**16 - 1),
    "Int8": (-128, 127),
    "UInt8": (0, 255),
}


# --------------------------------------------------------------------------
# structural helpers
# --------------------------------------------------------------------------


def is_dynamic(spec):
    k = spec["k"]
    if k == "string":
        return True
    if k in ("scalar", "ref", "unionref"):
        return False
    if k == "struct":
        return any(is_dynamic(t) for _, t in spec["fields"])
    if k == "array":
        return any(d is None for d in spec["shape"]) or is_dynamic(spec["item"])
    raise ValueError(k)


def has_refs(spec):
    k = spec["k"]
    if k in ("ref", "unionref"):
        return True
    if k == "struct":
        return any(has_refs(t) for _, t in spec["fields"])
    if k == "array":
        return has_refs(spec["item"])
    return False


def type_name(spec):
    """the __name__ the library gives the materialised class"""
    k = spec["k"]
    if k == "scalar":
        return spec["t"]
    if k == "string":
        return "String"
    if k in ("struct", "unionref"):
        return spec["name"]
    if k == "ref":
        return "Ref" + type_name(spec["to"])
    if k == "array":
        if spec.get("name"):
            return spec["name"]
        letters = "NMOPQRSTUVWXYZABCDEFGHIJKLM"
        il = 0
        parts = []
        for d in spec["shape"]:
            if d is None:
                parts.append(letters[il])
                il += 1
            else:
                parts.append(str(d))
        return "Arr" + "x".join(parts) + type_name(spec["item"])
    raise ValueError(k)


def subspecs(spec, depth=0):
    yield spec, depth
    k = spec["k"]
    if k == "struct":
        for _, t in spec["fields"]:
            yield from subspecs(t, depth + 1)
    elif k == "array":
        yield from subspecs(spec["item"], depth + 1)
    elif k == "ref":
        yield from subspecs(spec["to"], depth + 1)
    elif k == "unionref":
        for t in spec["members"]:
            yield from subspecs(t, depth + 1)


def type_labels(spec):
    lb = set()
    lb.add("root_" + spec["k"])
    if spec.get("big"):
        lb.add("big_case")
    maxdepth = 0
    for s, d in subspecs(spec):
        maxdepth = max(maxdepth, d)
        k = s["k"]
        if k == "struct":
            if any(t["k"] == "ref" and "default" in t for _, t in s["fields"]):
                lb.add("ref_field_with_declared_default")
            nd = sum(1 for _, t in s["fields"] if is_dynamic(t))
            if nd >= 1:
                lb.add("has_dynamic_struct")
            if nd >= 2:
                lb.add("struct_2plus_dynamic_fields")
            if d > 0:
                lb.add("struct_nested")
        elif k == "array":
            nd = len(s["shape"])
            lb.add(f"array_{nd}d")
            dyn_shape = any(x is None for x in s["shape"])
            if dyn_shape:
                lb.add("array_dynamic_shape")
                if nd > 1:
                    lb.add("array_nd_dynamic_shape")
            if is_dynamic(s["item"]):
                lb.add("array_of_dynamic_items")
                if nd > 1:
                    lb.add("nd_array_of_dynamic_items")
                if d > 0:
                    lb.add("nested_array_of_dynamic_items")
            if list(s["order"]) != list(range(nd)):
                lb.add("non_C_order")
                if nd == 3 and tuple(s["order"]) in ((1, 2, 0), (2, 0, 1)):
                    lb.add("three_cycle_order")
                    if is_dynamic(s["item"]):
                        lb.add("three_cycle_order_dynamic_items")
            if s["item"]["k"] in ("ref", "unionref"):
                lb.add("ref_inside_array")
            if s["item"]["k"] == "array":
                lb.add("array_of_arrays")
            if d > 0:
                lb.add("array_nested")
        elif k == "ref":
            lb.add("has_ref")
        elif k == "unionref":
            lb.add("has_unionref")
        elif k == "string":
            lb.add("has_string")
        if s.get("huge"):
            lb.add("huge_array")
    lb.add(f"depth_{min(maxdepth, 4)}")
    return lb


# --------------------------------------------------------------------------
# type strategy (by construction, no filtering)
# --------------------------------------------------------------------------


class Cfg:
    def __init__(self, tier="quick", **kw):
        thorough = tier == "thorough"
        self.max_leaves = 16 if thorough else 8
        self.max_depth = 5 if thorough else 4
        self.max_static_dim = 4
        self.max_dyn_extent = 4
        self.max_elems = 256 if thorough else 64
        self.max_fields = 5
        self.allow_refs = True
        self.ref_weight = 2
        self.allow_strings = True
        self.allow_dynamic = True
        self.allow_orders = True
        self.allow_nd = True
        self.roots = ("struct", "struct", "struct", "array", "array", "array", "unionref", "unionref", "string")
        self.scalars = SCALARS
        # "big" cases (one in big_weight when big_weight > 0): few leaves, but extents up to 12 (static) / 24 (dynamic),
        # texts up to 300 characters, up to 600 elements per root object: item tables, size words and strings that
        # cross 256 / 4096 bytes; with allow_huge one big case in eight holds an array of 8200 / 12345 8-byte numbers
        # (objects beyond 64 KiB, not a multiple of 64 KiB).  Values of big arrays are drawn as a small pool repeated with a stride.
        self.big_weight = 0
        self.allow_huge = False
        self.is_big = False
        self.max_text = 12
        self.__dict__.update(kw)

    def big(self):
        c = Cfg.__new__(Cfg)
        c.__dict__.update(self.__dict__)
        c.max_static_dim, c.max_dyn_extent, c.max_elems = 12, 24, 600
        c.max_leaves = min(self.max_leaves, 5)
        c.max_text, c.is_big, c.big_weight = 300, True, 0
        return c


def cfg_for(spec, cfg):
    """the configuration the values of `spec` are drawn with (big types carry a marker on their root)"""
    return cfg.big() if (isinstance(spec, dict) and spec.get("big") and not cfg.is_big) else cfg


class _Namer:
    def __init__(self):
        self.n = 0

    def next(self, prefix):
        self.n += 1
        return f"{prefix}{self.n}"


@st.composite
def type_specs(draw, cfg):
    namer = _Namer()
    big = cfg.big_weight > 0 and draw(st.integers(0, cfg.big_weight - 1)) == 0
    if big:
        cfg = cfg.big()
    root = draw(st.sampled_from(cfg.roots))
    budget = [draw(st.integers(1, cfg.max_leaves))]
    spec = _draw_type(draw, cfg, namer, budget, 0, root, 1)
    if big:
        spec["big"] = 1
    return spec


def _draw_kind(draw, cfg, depth, budget, elems, compound_only=False):
    kinds = []
    if not compound_only:
        kinds += ["scalar"] * 4
        if cfg.allow_strings and cfg.allow_dynamic:
            kinds += ["string"] * 2
    if depth < cfg.max_depth and budget[0] > 0:
        kinds += ["struct"] * 3 + ["array"] * 3
        if cfg.allow_refs and not compound_only:
            kinds += ["ref"] * cfg.ref_weight + ["unionref"] * cfg.ref_weight
    if not kinds:
        kinds = ["struct"] if compound_only else ["scalar"]
    return draw(st.sampled_from(kinds))


def _draw_type(draw, cfg, namer, budget, depth, kind, elems):
    """elems = number of instances of this node per root object (bounds total size)"""
    budget[0] -= 1
    if kind == "scalar":
        return {"k": "scalar", "t": draw(st.sampled_from(cfg.scalars))}
    if kind == "string":
        return {"k": "string"}
    if kind == "struct":
        name = namer.next("S")
        nf = draw(st.integers(1, cfg.max_fields if budget[0] > 2 else 2))
        fields = []
        for i in range(nf):
            fk = _draw_kind(draw, cfg, depth + 1, budget, elems)
            ft = _draw_type(draw, cfg, namer, budget, depth + 1, fk, elems)
            if ft["k"] == "ref" and draw(st.integers(0, 4)) == 0:
                # the field declares a non-null default (xo.Field(Ref[T], default=<data>)): an omitted field, and every
                # item of an array created by length, gets a referent of its own holding that value
                ft["default"] = _draw_value(draw, ft["to"], cfg)
            fields.append([f"f{i}", ft])
        return {"k": "struct", "name": name, "fields": fields}
    if kind == "array":
        if cfg.is_big and cfg.allow_huge and elems == 1 and cfg.allow_dynamic and draw(st.integers(0, 7)) == 0:
            # a "huge" array: one dynamic axis of 8200 / 12345 8-byte numbers (objects of 64 KiB .. 100 KiB, not a multiple of 64 KiB)
            return {"k": "array", "name": None, "item": {"k": "scalar", "t": draw(st.sampled_from(["Float64", "Int64", "UInt64"]))}, "shape": [None], "order": [0], "huge": 1}
        nd = draw(st.sampled_from([1, 1, 2, 2, 3])) if cfg.allow_nd else 1
        shape = []
        room = max(1, cfg.max_elems // max(1, elems))
        for _ in range(nd):
            mx = max(1, min(cfg.max_static_dim, room))
            if cfg.allow_dynamic and draw(st.integers(0, 2)) == 0:
                shape.append(None)
                room = max(1, room // cfg.max_dyn_extent)
            else:
                d = draw(st.integers(1, mx))
                shape.append(d)
                room = max(1, room // d)
        if nd > 1 and cfg.allow_orders and draw(st.integers(0, 1)) == 1:
            if nd == 3 and draw(st.integers(0, 1)) == 1:
                # the two cyclic orders are the only ones that differ from their inverse: weighted explicitly
                order = list(draw(st.sampled_from([(1, 2, 0), (2, 0, 1)])))
            else:
                order = list(draw(st.permutations(list(range(nd)))))
        else:
            order = list(range(nd))
        n_inst = elems * math.prod(cfg.max_dyn_extent if d is None else d for d in shape)
        ik = _draw_kind(draw, cfg, depth + 1, budget, n_inst)
        item = _draw_type(draw, cfg, namer, budget, depth + 1, ik, n_inst)
        name = None
        if order != list(range(nd)) or draw(st.integers(0, 3)) == 0:
            name = namer.next("A")
        return {"k": "array", "name": name, "item": item, "shape": shape, "order": order}
    if kind == "ref":
        tk = _draw_kind(draw, cfg, depth + 1, budget, elems, compound_only=True)
        if tk not in ("struct", "array"):
            tk = "struct"
        return {"k": "ref", "to": _draw_type(draw, cfg, namer, budget, depth + 1, tk, elems)}
    if kind == "unionref":
        name = namer.next("U")
        nm = draw(st.integers(1, 3))
        members = []
        names = set()
        for _ in range(nm):
            tk = draw(st.sampled_from(["struct", "struct", "array"]))
            if depth + 1 >= cfg.max_depth:
                tk = "struct"
            m = _draw_type(draw, cfg, namer, budget, depth + 1, tk, elems)
            if m["k"] == "array" and not m.get("name"):
                m["name"] = namer.next("A")
            nme = type_name(m)
            if nme in names:
                continue
            names.add(nme)
            members.append(m)
        return {"k": "unionref", "name": name, "members": members}
    raise ValueError(kind)


# --------------------------------------------------------------------------
# value strategy
# --------------------------------------------------------------------------

_text = st.text(
    alphabet=st.one_of(
        st.characters(min_codepoint=32, max_codepoint=126),
        st.characters(blacklist_categories=["Cs"], blacklist_characters="\x00"),
    ),
    max_size=12,
)


def scalar_values(t):
    if t in INT_RANGE:
        lo, hi = INT_RANGE[t]
        return st.one_of(st.integers(lo, hi), st.sampled_from([lo, hi, 0, 1, hi - 1, lo + 1]), st.integers(max(lo, -5), 5))
    if t == "Float64":
        return st.one_of(st.floats(width=64), st.sampled_from([0.0, -0.0, 1.5, float("inf"), float("-inf"), float("nan"), 5e-324, -5e-324, 2.225073858507201e-308]), st.integers(-9, 9).map(float))
    if t == "Float32":
        # 2**-149 and (1 - 2**-23) * 2**-126: the smallest and the largest subnormal of the kind
        return st.one_of(st.floats(width=32), st.sampled_from([0.0, -0.0, 1.5, float("inf"), float("-inf"), float("nan"), 2.0 ** -149, -(2.0 ** -149), 1.1754942106924411e-38]), st.integers(-9, 9).map(float))
    raise ValueError(t)


def dyn_extents(cfg):
    """runtime extents of dynamic dimensions: 0 included but not dominant"""
    if cfg.is_big:
        return st.one_of(st.sampled_from([0, 1, 9, 17]), st.integers(0, cfg.max_dyn_extent))
    return st.one_of(st.sampled_from([0, 1, 1, 2, 2, 3]), st.integers(0, cfg.max_dyn_extent))


_long_text = st.builds(
    lambda unit, n, tail: (unit * n)[:n] + tail,
    st.text(alphabet=st.one_of(st.characters(min_codepoint=32, max_codepoint=126), st.characters(blacklist_categories=["Cs"], blacklist_characters="\x00")), min_size=1, max_size=5),
    st.sampled_from([13, 31, 100, 247, 248, 255, 256, 300]),
    st.sampled_from(["", "", "\u00e9", "\U0001f600"]),
)


def texts(cfg):
    """string values; big cases mix in long texts (sizes around the 8-byte grid near 256 included)"""
    if cfg.is_big:
        return st.one_of(_text, _long_text)
    return _text


HUGE_EXTENTS = [8200, 12345]


def array_shape(draw, spec, cfg):
    """runtime shape of an array value"""
    if spec.get("huge"):
        return [draw(st.sampled_from(HUGE_EXTENTS))]
    return [draw(dyn_extents(cfg)) if d is None else d for d in spec["shape"]]


def pooled(draw, n, draw_one):
    """n values; beyond 12 they are a drawn pool of <= 6 values repeated with a stride (keeps Hypothesis' choice
    sequence short for big arrays while neighbouring items still differ)"""
    if n <= 12:
        return [draw_one() for _ in range(n)]
    pool = [draw_one() for _ in range(draw(st.integers(2, 6)))]
    step = draw(st.sampled_from([1, 5, 7]))
    # copies: model values are updated in place by the checks, so no two items may be the same Python object
    return [copy.deepcopy(pool[(i * step) % len(pool)]) for i in range(n)]


@st.composite
def values(draw, spec, cfg, nullable=True):
    return _draw_value(draw, spec, cfg)


def _draw_value(draw, spec, cfg):
    cfg = cfg_for(spec, cfg)
    k = spec["k"]
    if k == "scalar":
        return draw(scalar_values(spec["t"]))
    if k == "string":
        return draw(texts(cfg))
    if k == "struct":
        return {fn: _draw_value(draw, ft, cfg) for fn, ft in spec["fields"]}
    if k == "array":
        shape = array_shape(draw, spec, cfg)
        n = math.prod(shape)
        return {"shape": shape, "flat": pooled(draw, n, lambda: _draw_value(draw, spec["item"], cfg))}
    if k == "ref":
        if draw(st.integers(0, 3)) == 0:
            return None
        return _draw_value(draw, spec["to"], cfg)
    if k == "unionref":
        if draw(st.integers(0, 3)) == 0:
            return None
        i = draw(st.integers(0, len(spec["members"]) - 1))
        return [i, _draw_value(draw, spec["members"][i], cfg)]
    raise ValueError(k)


def indices(shape):
    return list(itertools.product(*[range(d) for d in shape]))


def flat_index(idx, shape):
    r = 0
    for i, d in zip(idx, shape):
        r = r * d + i
    return r


def to_nested(av):
    """array model value -> nested lists (only valid when no zero extent precedes another axis)"""
    shape, flat = av["shape"], av["flat"]

    def rec(level, base):
        if level == len(shape) - 1:
            return [flat[base + i] for i in range(shape[level])]
        stride = math.prod(shape[level + 1 :])
        return [rec(level + 1, base + i * stride) for i in range(shape[level])]

    return rec(0, 0)


def nested_expressible(shape):
    """a nested list cannot express a zero extent that is followed by further axes"""
    for i, d in enumerate(shape[:-1]):
        if d == 0:
            return False
    return True


# --------------------------------------------------------------------------
# value comparison (exact; floats by bit pattern modulo NaN payload)
# --------------------------------------------------------------------------


def values_equal(spec, a, b):
    return first_diff(spec, a, b) is None


def first_diff(spec, a, b, path=""):
    """None if equal, else a short description of the first difference (a = expected, b = got)"""
    import struct as _s

    if isinstance(a, dict) and "$any" in a:
        return None
    k = spec["k"]
    if k == "scalar":
        t = spec["t"]
        if t.startswith("Float"):
            try:
                fa, fb = float(a), float(b)
            except Exception:
                return f"{path}: expected {a!r} got {b!r}"
            if fa != fa and fb != fb:
                return None
            fmt = "<d" if t == "Float64" else "<f"
            try:
                if _s.pack(fmt, fa) == _s.pack(fmt, fb):
                    return None
            except OverflowError:
                pass
            return f"{path}: expected {a!r} got {b!r}"
        try:
            if int(a) == int(b) and not isinstance(b, float):
                return None
        except Exception:
            pass
        return f"{path}: expected {a!r} got {b!r}"
    if k == "string":
        return None if (isinstance(b, str) and a == b) else f"{path}: expected {a!r} got {b!r}"
    if k == "struct":
        if not isinstance(b, dict):
            return f"{path}: expected struct got {b!r}"
        for fn, ft in spec["fields"]:
            if fn not in b:
                return f"{path}.{fn}: missing"
            d = first_diff(ft, a[fn], b[fn], f"{path}.{fn}")
            if d:
                return d
        return None
    if k == "array":
        if not isinstance(b, dict) or "shape" not in b:
            return f"{path}: expected array got {b!r}"
        if [int(x) for x in a["shape"]] != [int(x) for x in b["shape"]]:
            return f"{path}: shape expected {a['shape']} got {b['shape']}"
        if len(a["flat"]) != len(b["flat"]):
            return f"{path}: length expected {len(a['flat'])} got {len(b['flat'])}"
        for i, (x, y) in enumerate(zip(a["flat"], b["flat"])):
            d = first_diff(spec["item"], x, y, f"{path}[{i}]")
            if d:
                return d
        return None
    if k == "ref":
        if a is None or b is None:
            return None if (a is None and b is None) else f"{path}: expected {'null' if a is None else 'non-null'} got {'null' if b is None else 'non-null'}"
        return first_diff(spec["to"], a, b, path + "->")
    if k == "unionref":
        if a is None or b is None:
            return None if (a is None and b is None) else f"{path}: expected {'null' if a is None else 'non-null'} got {'null' if b is None else 'non-null'}"
        if int(a[0]) != int(b[0]):
            return f"{path}: member expected {a[0]} got {b[0]}"
        return first_diff(spec["members"][a[0]], a[1], b[1], path + f"->{a[0]}")
    raise ValueError(k)
